"""C11 - the labware history is append-only, condensed per operation, and truthful.

Histories mixing add/remove/aspirate/dispense/transfer/distribute with rejections and line-level
interrupts interleaved; an aliasing monitor keeps every array ever obtained from `volumes` / `history`
by reference next to a private copy.  See DESIGN.md section 5 / C11.
"""
import re

from ..sim import ops as opsmod
from ..sim.gen import Gen
from ..sim.world import gen_world
from .history import Oracle, account, list_source, maybe_inject, run_history

PROP = "C11"
LEVEL = "exploration"
RULE = ("A case is one seeded history mixing add/remove/aspirate/dispense/transfer/distribute (any number of wells, "
        "zero volumes incl. transfers that move nothing, split volumes, same-labware and same-well transfers, labels "
        "present/None/empty) on both devices, with about one operation in eight rejected or interrupted at a "
        "robotools source line. Distinct = distinct event-log digest; non-trivial = at least one accepted liquid "
        "operation and at least one fault fired.")
COMPONENTS = {"real": ["Labware.log/condense_log/history/report/volumes", "EvoWorklist/FluentWorklist transfer + BaseWorklist.distribute"],
              "stub": ["user script (seeded generator)", "append-only history model + aliasing monitor"]}
ASSUMPTIONS = ["a transfer that moves nothing may add no entry or one labelled entry (the statement fixes the count only for operations that move liquid)",
               "the wording of the large-volume note is not pinned: label, then an integer"]

LIQ = ("add", "remove", "aspirate", "dispense", "transfer", "distribute", "evo_aspirate", "evo_dispense")
MAX_REFS = 400


class C11Oracle(Oracle):
    PROP = PROP

    def __init__(self, world, sess, res):
        super().__init__(world, sess, res)
        n = len(sess.labs)
        self.hist = [sess.history(i) for i in range(n)]
        self.refs = []  # (description, live reference, private copy)
        self.seen_ids = set()
        for i in range(n):
            self.take_refs(i, "initial")
        self.nrec = 0
        self.dead = set()

    # ------------------------------------------------------------------ aliasing monitor
    def take_refs(self, i, when):
        lab = self.sess.labs[i]
        if len(self.refs) >= MAX_REFS:
            return
        v = lab.volumes
        self.refs.append((f"array returned by {lab.name}.volumes after {when}", v, v.copy()))
        for j, (label, arr) in enumerate(lab.history):
            if id(arr) in self.seen_ids:
                continue
            self.seen_ids.add(id(arr))
            self.refs.append((f"history entry {j} of {lab.name} obtained after {when}", arr, arr.copy()))

    def check_refs(self, i, op, oc):
        import numpy as np

        for desc, ref, cp in self.refs:
            same = ref.shape == cp.shape and bool(np.all((ref == cp) | (np.isnan(ref) & np.isnan(cp))))
            if not same:
                self.fail("C11.snapshot", i, op, oc, f"{desc} was changed by a later operation")
                return False
        return True

    def before(self, i, op):
        self.nrec = len(self.sess.wl)

    # ------------------------------------------------------------------ per-step oracle
    def after(self, i, op, out):
        sess = self.sess
        n = len(sess.labs)
        oc = out.exc_type if not out.ok else "ok"
        new = [sess.history(j) for j in range(n)]
        ok_refs = self.check_refs(i, op, oc)
        k = op["op"]
        if out.injected:
            # Nothing is promised about an interrupted operation, and an asynchronous abort between the two
            # appends of Labware.log leaves the labware it touched with misaligned labels/states for good.
            # Those labware objects leave the per-operation clauses for the rest of the run (narrowly: only
            # they; the aliasing monitor keeps watching every array already handed out).
            for key in ("lab", "src", "dst"):
                if isinstance(op.get(key), int):
                    self.dead.add(op[key])
            self.adopt(new, i)
            return
        if self.dead & {op.get(key) for key in ("lab", "src", "dst")}:
            self.adopt(new, i)
            return
        # ---- prefix (successful or rejected: the past is never rewritten)
        for j in range(n):
            old = self.hist[j]
            if len(new[j]) < len(old) or new[j][:len(old)] != old:
                what = "dropped" if len(new[j]) < len(old) else "altered"
                self.fail("C11.prefix", i, op, oc,
                          f"{sess.geos[j].name}: earlier history entries were {what} ({len(old)} entries before, {len(new[j])} after; "
                          f"labels before {[e[0] for e in old][-4:]}, after {[e[0] for e in new[j]][-4:]})")
                self.adopt(new, i)
                return
        if not out.ok or k not in LIQ:
            if k not in LIQ:
                for j in range(n):
                    if len(new[j]) != len(self.hist[j]):
                        self.fail("C11.count", i, op, oc, f"{k} added history entries to {sess.geos[j].name}")
            self.adopt(new, i)
            return
        try:
            pl = opsmod.plan(op, sess.geos)
        except opsmod.PlanInvalid:
            self.adopt(new, i)
            return
        # ---- count
        added = [len(new[j]) - len(self.hist[j]) for j in range(n)]
        if k in ("add", "remove", "aspirate", "dispense", "evo_aspirate", "evo_dispense"):
            # (the EVO script commands are the EVO worklist's own aspirate / dispense: one entry per call as well)
            exp = {op["lab"]: (1, 1)}
        else:
            si, di = op["src"], op["dst"]
            moved = any(st[3] > 0 for st in pl["steps"])
            lo = 1 if moved else 0
            exp = {si: (lo, 1)} if si == di else {si: (lo, 1), di: (lo, 1)}
        for j in range(n):
            lo, hi = exp.get(j, (0, 0))
            if not lo <= added[j] <= hi:
                want = f"{lo}" if lo == hi else f"{lo} or {hi}"
                self.fail("C11.count", i, op, "ok",
                          f"{k} added {added[j]} history entries to {sess.geos[j].name}, expected {want}"
                          + (" (source and destination are the same labware)" if k in ("transfer", "distribute") and op["src"] == op["dst"] else ""),
                          {"same_labware": k in ("transfer", "distribute") and op["src"] == op["dst"]})
                self.adopt(new, i)
                return
        # ---- newest
        label = op.get("label") if k != "distribute" else (op.get("kw") or {}).get("label", "")
        extra = 0
        if k == "transfer":
            n_a = sum(1 for r in sess.records()[self.nrec:] if r.startswith("A;"))
            extra = n_a - sum(1 for t in pl["triples"] if t[2] > 0)
        for j in exp:
            if added[j] == 0:
                continue
            nl, narr = new[j][-1]
            if narr != sess.volumes_hex(j):
                self.fail("C11.newest", i, op, "ok", f"newest history entry of {sess.geos[j].name} differs from its current volumes")
                self.adopt(new, i)
                return
            d = self.judge_label(nl, label, extra)
            if d:
                self.fail("C11.newest", i, op, "ok", f"{sess.geos[j].name}: {d}", {"label": label, "newest": nl, "extra": extra})
                self.adopt(new, i)
                return
        # ---- report
        for j in exp:
            d = self.judge_report(j, new[j])
            if d:
                self.fail("C11.report", i, op, "ok", d)
                break
        self.adopt(new, i)

    def judge_label(self, newest, label, extra):
        if extra <= 0:
            if newest != label:
                return f"newest label is {newest!r}, the operation's label is {label!r} (no volume was split)"
            return None
        if not isinstance(newest, str):
            return f"newest label is {newest!r} although splitting added {extra} pipetting pairs"
        rest = newest
        if label:
            if not newest.startswith(label):
                return f"newest label {newest!r} does not start with the operation's label {label!r}"
            rest = newest[len(label):]
        m = re.search(r"-?\d+", rest)
        if not m:
            return f"newest label {newest!r} carries no large-volume step count (splitting added {extra} pairs)"
        if int(m.group(0)) != extra:
            return f"newest label {newest!r} reports {m.group(0)} large-volume steps, splitting added {extra} extra pairs"
        return None

    def judge_report(self, j, hist):
        lab = self.sess.labs[j]
        rep = lab.report
        if rep.count("[[") != len(hist):
            return f"{lab.name}.report shows {rep.count('[[')} states, the history has {len(hist)} entries"
        pos = 0
        for label, _ in hist:
            if label:
                p = rep.find(label, pos)
                if p < 0:
                    return f"{lab.name}.report does not list the label {label!r} in history order"
                pos = p + len(label)
        # "the same entries": the k-th printed state shows the k-th entry's volumes. The layout and the rounding of
        # the printout are not pinned, so this only looks at printouts that parse as one number per well, and allows
        # any rounding up to whole microlitres (catches a report that prints another entry's - or the live - array)
        blocks = re.findall(r"\[\[.*?\]\]", rep, flags=re.S)
        if len(blocks) != len(hist):
            return None
        num = re.compile(r"[-+]?(?:\d+\.?\d*(?:[eE][-+]?\d+)?|\.\d+(?:[eE][-+]?\d+)?|inf|nan)")
        for k, ((label, state), blk) in enumerate(zip(hist, blocks)):
            if "..." in blk:
                return None  # numpy abbreviated a large array
            toks = num.findall(blk)
            if len(toks) != len(state):
                return None
            for t, hx in zip(toks, state):
                v = float.fromhex(hx)
                try:
                    x = float(t)
                except ValueError:
                    return None
                if v != v or x != x or v in (float("inf"), float("-inf")):
                    continue
                if abs(x - v) > 0.51 + 1e-6 * abs(v):
                    return (f"{lab.name}.report shows {t} where entry {k} ({label!r}) of the history holds {v!r}: "
                            f"the report does not list the same entries")
        return None

    def adopt(self, new, i):
        self.hist = new
        for j in range(len(new)):
            self.take_refs(j, f"operation {i}")


class Program:
    def __init__(self, rng, tier):
        self.rng = rng
        opts = {"patterns": ["full", "uniform", "mixed", "mixed", "empty"], "allow_same_names": True}
        if rng.random() < 0.9:
            opts["integer_max_volume"] = True
        self.world = gen_world(rng, opts)
        self.first_op = None
        if len(self.world["labware"]) >= 2 and rng.random() < 0.02:
            # replicate plates: two labware objects with the same name, geometry and limits, one filled, one empty; the
            # first step splits every well 1:1, after which the two hold the same volumes everywhere (equal in every
            # respect but identity)
            import copy
            from ..sim.geom import enc
            rows, cols = rng.randint(1, 4), rng.randint(1, 4)
            q = float(rng.choice([25, 50, 12.5, 100]))
            a = {"kind": "plate", "name": "DWP", "rows": rows, "cols": cols, "min": enc(0.0), "max": enc(500.0),
                 "initial": enc([[2 * q] * cols for _ in range(rows)]), "names": None, "grid": 10, "site": 1}
            b = copy.deepcopy(a)
            b["initial"] = enc([[0.0] * cols for _ in range(rows)])
            b["grid"], b["site"] = 11, 2
            self.world["labware"][0], self.world["labware"][1] = a, b
            for spec in self.world["labware"]:
                spec.pop("replica_of", None)  # (a replica of one of the two replaced labware would share the wrong array)
            from ..sim.geom import well_id
            wells = [[well_id(r, c) for c in range(cols)] for r in range(rows)]
            self.first_op = {"op": "transfer", "src": 0, "sw": wells, "dst": 1, "dw": wells, "volumes": enc(q),
                             "label": "split 1:1", "intent": "ok"}
        self.gen = Gen(rng, self.world, {"p_comp": 0.4, "dist_dups": True})
        r = rng.random()
        self.n = rng.randint(1, 8) if r < 0.65 else rng.randint(8, 25) if r < 0.92 else rng.randint(25, 60)
        if tier == "thorough" and rng.random() < 0.2:
            self.n = rng.randint(60, 300)  # thorough tier: some very long histories
        elif tier != "thorough" and rng.random() < 0.008:
            self.n = rng.randint(110, 280)  # quick tier: the occasional very long script (more than 100 / 256 steps)
        self.p_fault = rng.choice([0.0, 0.1, 0.125, 0.2])
        self.p_int = rng.choice([0.0, 0.05, 0.1])

    def source(self, i, sess):
        if i >= self.n:
            return None
        rng, g = self.rng, self.gen
        if i == 0 and self.first_op is not None:
            return self.first_op
        fault = rng.random() < self.p_fault
        r = rng.random()
        if r < 0.04:
            return g.gen_misc()
        if r < 0.12 and self.world["device"] == "evo":
            if rng.random() < 0.25:
                return g.gen_invalid(sess, ["evo_multicol"])
            ek = rng.choice(["evo_aspirate", "evo_dispense"])
            intent = ("reject.underflow" if ek == "evo_aspirate" else "reject.overflow") if fault else "ok"
            return maybe_inject(rng, g.gen_evo(sess, ek, intent=intent, canonical=rng.random() < 0.9), self.p_int)
        if r < 0.45:
            li = None
            if rng.random() < 0.3:
                li = rng.randrange(len(self.world["labware"]))
            intent = rng.choice(["reject.underflow", "reject.overflow"]) if fault else "ok"
            op = g.gen_transfer(sess, intent, si=li, di=li)
        elif r < 0.6:
            intent = rng.choice(["reject.underflow", "reject.overflow"]) if fault else "ok"
            op = g.gen_distribute(sess, intent) or g.gen_transfer(sess, intent)
        else:
            kind = rng.choice(["add", "remove", "aspirate", "dispense"])
            intent = "ok"
            if fault:
                intent = "reject.underflow" if kind in ("remove", "aspirate") else "reject.overflow"
            op = g.gen_addremove(sess, kind, intent=intent)
        return maybe_inject(rng, op, self.p_int)


def explore(rng, tier, stats):
    prog = Program(rng, tier)
    res = run_history(prog.world, prog.source, C11Oracle)
    account(stats, prog.world, res, PROP)
    return res.violations


def replay(spec):
    return run_history(spec["world"], list_source(spec["ops"]), C11Oracle)
