#!/bin/bash
# Confirms several small seeded changes delivered as <worktree>/seeded/<k>/{patch.diff,demo.py,meta.json} (k = 1..n).
# usage: tools_ingest_multi.sh /tmp/seed-C16-i C16-i     -> files /verif/seeded/C16-i1, C16-i2, ...
wt=$1; id=$2
cd $wt || exit 2
for kd in seeded/*/; do
  k=$(basename $kd)
  test -f $kd/patch.diff -a -f $kd/demo.py -a -f $kd/meta.json || { echo "$k: deliverables missing"; continue; }
  git -C $wt checkout -q -- robotools
  if grep -q "test_" <(grep "^+++" $kd/patch.diff); then echo "$k: REJECT test files edited"; continue; fi
  git -C $wt apply $kd/patch.diff || { echo "$k: patch does not apply"; continue; }
  /venv/bin/python -m pytest -q -p no:cacheprovider --timeout=900 > /tmp/ingest-$id$k.test 2>&1; rc_test=$?
  /venv/bin/python $kd/demo.py > /tmp/ingest-$id$k.with 2>&1; rc_with=$?
  git -C $wt diff -- robotools > /tmp/ingest-$id$k.diff
  git -C $wt checkout -q -- robotools
  /venv/bin/python $kd/demo.py > /tmp/ingest-$id$k.without 2>&1; rc_without=$?
  echo "$k: pytest_rc=$rc_test demo_with_rc=$rc_with demo_without_rc=$rc_without  $(tail -1 /tmp/ingest-$id$k.test)"
  if [ $rc_test -ne 0 ] || [ $rc_with -eq 0 ] || [ $rc_without -ne 0 ]; then echo "$k: REJECT"; continue; fi
  dst=/verif/seeded/$id$k
  mkdir -p $dst
  cp /tmp/ingest-$id$k.diff $dst/patch.diff
  sed "s#\"$wt/\"#__import__('os').environ.get('ROBOTOOLS_REPO', '/repo')#; s#'$wt/'#__import__('os').environ.get('ROBOTOOLS_REPO', '/repo')#; s#\"$wt\"#__import__('os').environ.get('ROBOTOOLS_REPO', '/repo')#; s#'$wt'#__import__('os').environ.get('ROBOTOOLS_REPO', '/repo')#" $kd/demo.py > $dst/demo.py
  cp $kd/meta.json $dst/meta.agent.json
  cp /tmp/ingest-$id$k.with $dst/demo.with.txt; cp /tmp/ingest-$id$k.without $dst/demo.without.txt
  echo "$k: ACCEPTED -> $dst"
done
