"""C05 - composition tracking equals ideal volumetric mixing and conserves components.

Lock-step exact-arithmetic ledger over long histories (no fault dimension in the statement: the
weakest fit for this technique, see DESIGN.md section 5 / C05).  Runs end at the first rejected
liquid operation.
"""
import math
from fractions import Fraction

from ..sim import ops as opsmod
from ..sim.gen import Gen
from ..sim.geom import frac
from ..sim.ledger import Ledger
from ..sim.world import gen_world
from .history import Oracle, account, list_source, run_history

PROP = "C05"
LEVEL = "exploration"
RULE = ("A case is one seeded history of transfer/distribute/dispense-with-composition/add/aspirate/remove calls "
        "(serial dilutions, within-labware and within-well transfers, wells emptied and refilled, zero-volume steps, "
        "troughs, shared component names, every naming configuration; in half of the runs about one call in seven is aimed to be rejected) in the quarter or centi volume regime, stepped "
        "in lock-step with an exact-arithmetic mixing model. Distinct = distinct event-log digest; non-trivial = at "
        "least one liquid operation succeeded.")
COMPONENTS = {"real": ["Labware/Trough composition tracking", "EvoWorklist/FluentWorklist.transfer/distribute/dispense"],
              "stub": ["user script (seeded generator)", "ledger (exact volumetric mixing model)"]}
ASSUMPTIONS = ["fractions compared with 1e-9 (quarter regime) / 1e-6 (centi and milli regimes) absolute tolerance",
               "wells that received liquid of unknown composition are exempt from the mixing and sum clauses only"]

EMPTY = Fraction(1, 10 ** 9)


class C05Oracle(Oracle):
    PROP = PROP

    def __init__(self, world, sess, res):
        super().__init__(world, sess, res)
        self.ledger = Ledger(world["labware"], exact_grid=world["regime"] == "quarter")
        self.ftol = Fraction(1, 10 ** 9) if world["regime"] == "quarter" else Fraction(1, 10 ** 6)
        self.device = world["device"]
        self.pre_comp = None
        self.pre_tot = None
        self.checked_names = False
        self.transfers_ok = 0
        self.rejected_seen = 0

    # ------------------------------------------------------------------ helpers
    def totals(self):
        """component -> sum over all wells of all labware of volume x fraction (reported floats)."""
        import numpy as np

        tot = {}
        for lab in self.sess.labs:
            vol = np.nan_to_num(np.asarray(lab.volumes, dtype=float).ravel())
            for name, arr in lab.composition.items():
                a = np.nan_to_num(np.asarray(arr, dtype=float).ravel())
                if a.shape == vol.shape:
                    tot[name] = tot.get(name, 0.0) + float(np.dot(vol, a))
        return tot

    def comp_at(self, li, w):
        return {name: float(arr[w]) for name, arr in self.sess.labs[li].composition.items()}

    def comp_snapshot(self):
        import numpy as np

        return [{name: np.array(arr, dtype=float, copy=True) for name, arr in lab.composition.items()}
                for lab in self.sess.labs]

    def check_names(self, i, op):
        for li, g in enumerate(self.sess.geos):
            names = g.initial_names()
            ini = g.initial()
            comp0 = self.initial_comp[li]
            for w, v in ini.items():
                present = {n for n, arr in comp0.items() if arr[w] != 0}
                if v == 0:
                    if present:
                        self.fail("C05.names", i, op, "ok", f"{g.name}{w} is initially empty but carries components {sorted(present)}")
                        return
                    continue
                exp = names.get(w)
                ones = {n for n, arr in comp0.items() if arr[w] == 1.0}
                if len(present) != 1 or len(ones) != 1:
                    self.fail("C05.names", i, op, "ok", f"{g.name}{w} is initially filled but its composition is {sorted(present)}, not one 100 % component")
                    return
                if exp is not None and ones != {exp}:
                    self.fail("C05.names", i, op, "ok", f"{g.name}{w}: initial component is named {sorted(ones)[0]!r}, expected {exp!r}")
                    return
                if exp is None:
                    # statement silent (1 x N plate): adopt the reported name
                    self.ledger.comp[li][w] = {sorted(ones)[0]: Fraction(1)}
                    self.ledger.silent[li].discard(w)

    def before(self, i, op):
        if not self.checked_names:
            self.initial_comp = [self.sess.composition(j) for j in range(len(self.sess.labs))]
            self.check_names(i, op)
            self.checked_names = True
        self.pre_snap = self.comp_snapshot()
        self.pre_tot = self.totals()
        self.nrec = len(self.sess.wl)

    def check_finite(self, i, op, oc):
        import numpy as np

        for li, g in enumerate(self.sess.geos):
            for name, arr in self.sess.labs[li].composition.items():
                a = np.asarray(arr, dtype=float)
                bad = ~(np.isfinite(a) & (a >= -1e-12) & (a <= 1 + 1e-12))
                if bad.any():
                    w = tuple(int(x) for x in np.argwhere(bad)[0])
                    self.fail("C05.finite", i, op, oc, f"{g.name}{w}: fraction of {name!r} is {float(a[w])!r}")
                    return False
        return True

    def after(self, i, op, out):
        oc = out.exc_type if not out.ok else "ok"
        k = op["op"]
        liquid = k in ("add", "remove", "aspirate", "dispense", "transfer", "distribute", "evo_aspirate", "evo_dispense")
        if not self.check_finite(i, op, oc):
            self.stop = True
            return
        if not out.ok:
            if liquid:
                self.after_rejected(i, op, out, oc, k)
            return
        if not liquid:
            return
        try:
            pl = opsmod.plan(op, self.sess.geos)
        except opsmod.PlanInvalid:
            self.stop = True
            return
        # ---- remove_inert
        if k in ("remove", "aspirate", "evo_aspirate"):
            if not self.same_comp(self.pre_snap, self.comp_snapshot(), set()):
                self.fail("C05.remove_inert", i, op, "ok", f"{k} changed a composition array")
                self.stop = True
                return
        # ---- advance the model
        steps = pl["steps"]
        if k == "transfer" and self.self_overlap(op, pl):
            seq = self.order_from_records(op, pl)
            if seq is None:
                # the records do not carry the requested flows: that is C01/C07's subject; no verdict here
                self.stop = True
                return
            steps = seq
            self.res.probes_self_overlap = getattr(self.res, "probes_self_overlap", 0) + 1
        for st in steps:
            self.ledger.apply_step(st)
        # ---- conserve
        if k in ("transfer", "distribute"):
            self.transfers_ok += 1
            now_tot = self.totals()
            for name in set(now_tot) | set(self.pre_tot):
                a, b = self.pre_tot.get(name, 0.0), now_tot.get(name, 0.0)
                if abs(a - b) > 1e-9 * max(1.0, abs(a)):
                    self.fail("C05.conserve", i, op, "ok",
                              f"total amount of {name!r} changed from {float(a)!r} to {float(b)!r} during a {k}")
                    self.stop = True
                    return
        # ---- frame: composition of wells the call did not add to is bit-identical
        touched = {(st[1], st[2]) for st in steps if st[0] == "add"}
        if not self.same_comp(self.pre_snap, self.comp_snapshot(), touched):
            self.fail("C05.frame", i, op, "ok", f"{k} changed the composition of a well it did not add liquid to")
            self.stop = True
            return
        # ---- mix / sum on the wells that received liquid (all wells again at the end of the run)
        self.check_wells(i, op, sorted(touched))

    def finish(self):
        if self.stop or not self.res.ops:
            return
        allw = [(li, w) for li, g in enumerate(self.sess.geos) for w in g.real_wells()]
        self.check_wells(len(self.res.ops) - 1, self.res.ops[-1], allw)

    def same_comp(self, a, b, except_wells):
        import numpy as np

        for li in range(len(a)):
            if set(a[li]) - set(b[li]):
                return False
            for name, arr in b[li].items():
                old = a[li].get(name)
                if old is None:
                    old = np.zeros_like(arr)
                if old.shape != arr.shape:
                    return False
                diff = ~((old == arr) | (np.isnan(old) & np.isnan(arr)))
                for (lj, w) in except_wells:
                    if lj == li:
                        diff[w] = False
                if diff.any():
                    return False
        return True

    def check_wells(self, i, op, wells):
        vols_cache = {}
        for (li, w) in wells:
            g = self.sess.geos[li]
            mv = self.ledger.vol[li][w]
            if mv <= EMPTY or not self.ledger.known(li, w):
                continue
            if li not in vols_cache:
                vols_cache[li] = self.sess.volumes(li)
            if vols_cache[li][w] <= 1e-9:
                continue
            comp = self.comp_at(li, w)
            exp = self.ledger.comp[li][w]
            total = Fraction(0)
            for name in sorted(set(exp) | set(comp)):
                e = exp.get(name, Fraction(0))
                got = comp.get(name, 0.0)
                if got != got:
                    self.fail("C05.finite", i, op, "ok", f"{g.name}{w}: fraction of {name!r} is NaN")
                    self.stop = True
                    return
                total += frac(got)
                if abs(frac(got) - e) > self.ftol:
                    self.fail("C05.mix", i, op, "ok",
                              f"{g.name}{w}: fraction of {name!r} is {got!r}, ideal volumetric mixing gives {float(e)!r}",
                              {"well": list(w)})
                    self.stop = True
                    return
            if abs(total - 1) > self.ftol * max(1, len(exp)):
                self.fail("C05.sum", i, op, "ok", f"{g.name}{w}: fractions sum to {float(total)!r}")
                self.stop = True
                return
            wid = g.well_id(w[0], w[1])
            wc = self.sess.well_composition(li, wid)
            for name, e in exp.items():
                got = (wc or {}).get(name, 0.0)
                if e > self.ftol and abs(frac(got) - e) > self.ftol:
                    self.fail("C05.mix", i, op, "ok",
                              f"{g.name}.{wid}: get_well_composition gives {got!r} of {name!r}, expected {float(e)!r}")
                    self.stop = True
                    return

    SEQUENTIAL = ("add", "dispense", "evo_dispense", "remove", "aspirate", "evo_aspirate", "distribute")

    def after_rejected(self, i, op, out, oc, k):
        """A rejected liquid operation may have applied some of its sub-steps; the history goes on, so that state
        left behind by a failed call is seen by the later steps.  What is still claimed, narrowly:
          * wells the call did not address: composition bit-identical;
          * wells the call only removes from: composition bit-identical (removing never changes it);
          * wells the call only adds to and whose volume did not change: nothing arrived, composition bit-identical;
          * calls whose elements are applied one after the other (add/dispense/remove/aspirate/evo_*/distribute):
            the elements before the first refused one were applied *with* their composition (or nothing was);
          * every other addressed well becomes "content unknown" (exempt from mix/sum until emptied and refilled)."""
        self.res.ended_by_rejection = True
        try:
            pl = opsmod.plan(op, self.sess.geos)
        except opsmod.PlanInvalid:
            self.stop = True
            return
        steps = pl["steps"]
        touched = opsmod.addressed(pl)
        now_snap = self.comp_snapshot()
        vols = {}
        for (li, w) in touched:
            if li not in vols:
                vols[li] = self.sess.volumes(li)
        rm_only = {(st[1], st[2]) for st in steps if st[0] == "rm"} - {(st[1], st[2]) for st in steps if st[0] == "add"}
        add_only = {(st[1], st[2]) for st in steps if st[0] == "add"} - {(st[1], st[2]) for st in steps if st[0] == "rm"}
        # --- sequential calls: find the applied prefix (k elements, or nothing)
        applied = None
        if k in self.SEQUENTIAL:
            import copy

            trial = copy.deepcopy(self.ledger)
            kk = None
            for n, st in enumerate(steps):
                r = trial.check_step(st, Fraction(1, 10 ** 6))
                if r != "ok":
                    kk = n if r == "reject" else None
                    break
                trial.apply_step(st)
            if kk is not None:
                def matches(led):
                    return all(vols[li][w] == vols[li][w] and abs(frac(vols[li][w]) - led.vol[li][w]) <= Fraction(1, 10 ** 9) * max(1, abs(led.vol[li][w]))
                               for (li, w) in touched)
                if matches(trial):
                    applied = trial  # the prefix before the refused element
                elif matches(self.ledger):
                    applied = self.ledger  # nothing was applied
        if applied is not None:
            prefix_wells = set()
            if applied is not self.ledger:
                # (also zero-volume additions: re-mixing with nothing may re-round the fractions of that well)
                prefix_wells = {(st[1], st[2]) for st in steps[:kk] if st[0] == "add"}
                self.ledger = applied
            if not self.same_comp(self.pre_snap, now_snap, prefix_wells):
                self.fail("C05.rejected_inert", i, op, oc,
                          f"the rejected {k} changed the composition of a well that received no liquid")
                self.stop = True
                return
            self.check_wells(i, op, sorted(prefix_wells))
            self.rejected_seen += 1
            return
        # --- order unknown (transfer) or ambiguous: inert wells stay exact, the rest becomes unknown
        inert = set()
        # (also volumes so small that the float sum absorbs them, e.g. 5e-324: the volume does not change but the
        # fractions are re-mixed and thereby re-rounded)
        zero_adds = {(st[1], st[2]) for st in steps if st[0] == "add"
                     and (st[3] == 0 or float(self.ledger.vol[st[1]][st[2]]) + st[3] == float(self.ledger.vol[st[1]][st[2]]))}
        for (li, w) in touched:
            if (li, w) in zero_adds:
                continue  # adding 0 uL re-mixes (and may re-round) the fractions without changing the volume
            pre_v = self.ledger.vol[li][w]
            same_v = vols[li][w] == vols[li][w] and frac(vols[li][w]) == pre_v
            if (li, w) in rm_only or ((li, w) in add_only and same_v):
                inert.add((li, w))
        if not self.same_comp(self.pre_snap, now_snap, touched - inert):
            self.fail("C05.rejected_inert", i, op, oc,
                      f"the rejected {k} changed the composition of a well it only removes from, of a well that received "
                      f"no liquid, or of a well it did not address")
            self.stop = True
            return
        for (li, w) in touched:
            v = vols[li][w]
            if v == v:
                self.ledger.vol[li][w] = frac(v)
            if (li, w) not in inert:
                self.ledger.taint[li].add(w)
        self.rejected_seen += 1

    def self_overlap(self, op, pl):
        if op["src"] != op["dst"]:
            return False
        srcs = {t[0] for t in pl["triples"] if t[2] > 0}
        dsts = {t[1] for t in pl["triples"] if t[2] > 0}
        return bool(srcs & dsts)

    def order_from_records(self, op, pl):
        """sub-step order of a self-overlapping transfer, taken from the emitted A/D pairs and guarded by
        the requested flows per (source, destination)."""
        recs = self.sess.records()[self.nrec:]
        si, di = op["src"], op["dst"]
        gs, gd = self.sess.geos[si], self.sess.geos[di]
        seq = []
        pend = None
        flows = {}
        try:
            for r in recs:
                f = r.split(";")
                if f[0] == "A" and len(f) == 11:
                    pend = (gs.from_position(self.device, int(f[4])), Fraction(f[6]))
                elif f[0] == "D" and len(f) == 11:
                    if pend is None:
                        return None
                    d = gd.from_position(self.device, int(f[4]))
                    v = Fraction(f[6])
                    if v != pend[1]:
                        return None
                    seq.append(("rm", si, pend[0], v))
                    seq.append(("add", di, d, v, ("from", si, pend[0])))
                    flows[(pend[0], d)] = flows.get((pend[0], d), 0) + v
                    pend = None
        except (KeyError, ValueError):
            return None
        req = {}
        for (s, d, v, _a, _b) in pl["triples"]:
            if v > 0:
                req[(s, d)] = req.get((s, d), 0) + frac(v)
        for key in set(req) | set(flows):
            if abs(req.get(key, 0) - flows.get(key, 0)) > Fraction(1, 10 ** 6):
                return None
        return seq


class Program:
    def __init__(self, rng, tier):
        self.rng = rng
        opts = {"regime": rng.choice(["quarter", "quarter", "centi", "milli"]), "auto_split": True, "integer_max_volume": True,
                "patterns": ["full", "uniform", "mixed", "mixed", "empty"]}
        if rng.random() < 0.4:
            opts["need_trough"] = True
        self.world = gen_world(rng, opts)
        self.gen = Gen(rng, self.world, {"p_comp": 0.9, "dist_dups": True})
        r = rng.random()
        self.n = rng.randint(1, 8) if r < 0.6 else rng.randint(8, 20) if r < 0.9 else rng.randint(20, 60)
        if tier == "thorough" and rng.random() < 0.2:
            self.n = rng.randint(60, 300)  # thorough tier: some very long histories
        elif tier != "thorough" and rng.random() < 0.008:
            self.n = rng.randint(110, 280)  # quick tier: the occasional very long script (more than 100 / 256 steps)
        self.mode = rng.choice(["mixed", "mixed", "dilution", "within"])
        self.p_fault = rng.choice([0.0, 0.0, 0.1, 0.2])

    def source(self, i, sess):
        if i >= self.n:
            return None
        rng, g = self.rng, self.gen
        r = rng.random()
        if rng.random() < self.p_fault:
            kind = rng.choice(["transfer", "transfer", "distribute", "dispense", "aspirate", "invalid"])
            if kind == "invalid":
                # a NaN or (slightly) negative volume, compositions that do not pair up: refused, or at least harmless
                return g.gen_invalid(sess, ["nan", "nan", "negative", "comps_len"])
            if kind == "transfer":
                return g.gen_transfer(sess, rng.choice(["reject.underflow", "reject.overflow"]))
            if kind == "distribute":
                d = g.gen_distribute(sess, rng.choice(["reject.underflow", "reject.overflow"]))
                if d is not None:
                    return d
            if kind == "dispense":
                return g.gen_addremove(sess, "dispense", intent="reject.overflow")
            return g.gen_addremove(sess, "aspirate", intent="reject.underflow")
        if self.mode == "within" and r < 0.5:
            li = rng.randrange(len(self.world["labware"]))
            return g.gen_transfer(sess, "ok", si=li, di=li)
        if self.mode == "dilution" and r < 0.5:
            return self.dilution_step(sess)
        if r < 0.45:
            return g.gen_transfer(sess, "ok")
        if r < 0.60:
            d = g.gen_distribute(sess, "ok")
            if d is not None:
                return d
        if r < 0.66 and self.world["device"] == "evo":
            op = g.gen_evo(sess, rng.choice(["evo_dispense", "evo_dispense", "evo_aspirate"]), intent="ok")
            if op["op"] == "evo_dispense" and not op.get("comps"):
                from ..sim.gen import dyadic_composition
                from ..sim.geom import enc, flatten_f
                op["comps"] = [enc(dyadic_composition(rng)) for _ in flatten_f(op["wells"])]
            return op
        if r < 0.8:
            return g.gen_addremove(sess, rng.choice(["dispense", "add"]), intent="ok")
        if r < 0.97:
            return g.gen_addremove(sess, rng.choice(["aspirate", "remove"]), intent="ok")
        return g.gen_misc()

    def dilution_step(self, sess):
        """column c -> column c+1 along every row of a plate (serial dilution)."""
        rng = self.rng
        plates = [i for i, s in enumerate(self.world["labware"]) if s["kind"] == "plate" and s["cols"] >= 2]
        if not plates:
            return self.gen.gen_transfer(sess, "ok")
        li = rng.choice(plates)
        geo = self.gen.geos[li]
        c = rng.randrange(geo.cols - 1)
        from ..sim.geom import enc, well_id
        from ..sim.world import snap_down
        vols = sess.volumes(li)
        h = min(min(max(vols[(r, c)] - geo.vmin, 0.0) for r in range(geo.rows)),
                min(max(geo.vmax - vols[(r, c + 1)], 0.0) for r in range(geo.rows)))
        v = snap_down(rng.uniform(0, h) * 0.999, self.world["regime"]) if h > 0 else 0.0
        return {"op": "transfer", "src": li, "sw": [geo.well_id(r, c) for r in range(geo.rows)], "dst": li,
                "dw": [geo.well_id(r, c + 1) for r in range(geo.rows)], "volumes": enc(float(v)), "label": "dilute",
                "intent": "ok", "wash": rng.choice([1, "flush", "reuse"])}


def explore(rng, tier, stats):
    prog = Program(rng, tier)
    res = run_history(prog.world, prog.source, C05Oracle)
    account(stats, prog.world, res, PROP, fault_bearing=False)
    if getattr(res, "probes_self_overlap", 0):
        stats.probes["self_overlapping_transfer"] += res.probes_self_overlap
    return res.violations


def replay(spec):
    return run_history(spec["world"], list_source(spec["ops"]), C05Oracle)
