#!/bin/bash
# False-alarm hunt: confirms a property-PRESERVING change delivered in a scratch worktree (tools_prompt.py --benign),
# files it under /verif/benign/<id>/ and runs every quick check against a scratch copy of /repo with the change.
# Every check must exit 0 there; an exit 1 is either a false alarm of the machinery (to be corrected) or the
# change is not as harmless as its author thinks (to be argued in benign/<id>/verdict.txt).
# usage: tools_benign.sh /tmp/seed-C17-zb C17-zb [budget_s] [props...]
wt=$1; id=$2; budget=${3:-15}; shift; shift; shift
props=${@:-C01 C02 C03 C04 C05 C11 C16 C17}
ROOT=$(dirname $(realpath $0))
dst=$ROOT/benign/$id
if [ -d "$wt" ]; then
  cd $wt || exit 2
  test -f seeded/meta.json || { echo "deliverables missing"; ls seeded; exit 2; }
  git -C $wt diff -- robotools > /tmp/benign-$id.diff
  test -s /tmp/benign-$id.diff || { echo "no source change in worktree"; exit 2; }
  if git -C $wt diff --name-only | grep -q "test_"; then echo "REJECT: test files were edited"; exit 1; fi
  suite=$(/venv/bin/python -m pytest -q -p no:cacheprovider --timeout=900 2>&1 | tail -1)
  echo "pytest with change: $suite"
  echo "$suite" | grep -q "148 passed" || { echo "REJECT: suite does not pass"; exit 1; }
  mkdir -p $dst
  cp /tmp/benign-$id.diff $dst/patch.diff
  cp seeded/meta.json $dst/meta.agent.json
  test -f seeded/demo.py && sed "s#\"$wt/\"#__import__('os').environ.get('ROBOTOOLS_REPO', '/repo')#; s#'$wt/'#__import__('os').environ.get('ROBOTOOLS_REPO', '/repo')#; s#\"$wt\"#__import__('os').environ.get('ROBOTOOLS_REPO', '/repo')#; s#'$wt'#__import__('os').environ.get('ROBOTOOLS_REPO', '/repo')#" seeded/demo.py > $dst/demo.py
  echo "$suite" > $dst/suite.txt
fi
cd $ROOT
target=/dev/shm/rtcopy-benign-$id
rm -rf $target; mkdir -p $target
rsync -a --exclude .git --exclude __pycache__ --exclude notebooks --exclude docs /repo/ $target/
(cd $target && patch -p1 -s < $dst/patch.diff) || { echo "patch does not apply"; rm -rf $target; exit 2; }
trap 'rm -rf $target' EXIT
: > $dst/checks.txt.new
for p in $props; do
  out=$(VERIF_REPO=$target /venv/bin/python -m verif.check $p --tier quick --budget $budget --no-evidence --stop-at-first 2>&1)
  rc=$?
  cl=$(echo "$out" | grep '^# clause' | sed 's/^# clause=\([^ ]*\) culprit_op=\([^ ]*\).*/\1@\2/' | sort -u | tr '\n' ' ')
  echo "$id $p rc=$rc $cl" | tee -a $dst/checks.txt.new
  if [ $rc -ne 0 ]; then echo "$out" | grep -v '^KNOWN' | grep -A1 '^# clause' | head -12; echo "$out" | grep "HARNESS" | head -3; fi
done
if [ "$props" = "C01 C02 C03 C04 C05 C11 C16 C17" ]; then mv $dst/checks.txt.new $dst/checks.txt; else cat $dst/checks.txt.new >> $dst/checks.partial.txt; rm $dst/checks.txt.new; fi
