"""Prepares a scratch git worktree of /repo for one independent sub-agent and prints the prompt it gets:
only the text of one property, the worktree path, the deliverables, and one-line summaries of the ideas
already used against that property (so that mechanisms differ). Nothing from /verif's machinery.
usage: /venv/bin/python tools_prompt.py C03 r [steer text]           (breaking change)
       /venv/bin/python tools_prompt.py C03 zb --benign [steer text] (property-preserving change, false-alarm hunt)
"""
import json, os, subprocess, sys

ROOT = os.path.dirname(os.path.abspath(__file__))


def main():
    prop, rnd = sys.argv[1], sys.argv[2]
    rest = sys.argv[3:]
    benign = "--benign" in rest
    multi = "--multi" in rest
    steer = " ".join(x for x in rest if x not in ("--benign", "--multi"))
    p = next(json.loads(l) for l in open(os.path.join(ROOT, "properties.jsonl")) if json.loads(l)["id"] == prop)
    wt = f"/tmp/seed-{prop}-{rnd}"
    if not os.path.isdir(wt):
        subprocess.run(["git", "-C", "/repo", "worktree", "add", "--detach", "-q", wt, "HEAD"], check=True)
    used = []
    for d in sorted(os.listdir(os.path.join(ROOT, "seeded"))):
        f = os.path.join(ROOT, "seeded", d, "meta.agent.json")
        if d.startswith(prop + "-") and os.path.exists(f):
            try:
                used.append("- " + (json.load(open(f)).get("summary") or "")[:220])
            except Exception:
                pass
    text = f"""You are working in a scratch git worktree of the Python library JuBiotech/robotools at {wt} (work ONLY inside that directory; never touch /repo or /verif, do not read /verif). robotools tracks liquid volumes and compositions in labware (robotools/liquidhandling/labware.py, composition.py) and emits Tecan EVO/Fluent .gwl worklist records (robotools/worklists/base.py, robotools/evotools/, robotools/fluenttools/). Run its test suite with: cd {wt} && /venv/bin/python -m pytest -q -p no:cacheprovider --timeout=900   (148 tests, all pass). To import the worktree's code in a script use: import sys; sys.path.insert(0, "{wt}"); import robotools  (and assert robotools.__file__.startswith("{wt}")).

Here is a semantic property that users of the library rely on:

PROPERTY {prop}: {p['title']}
{p['statement']}
Quantified over: {p['quantifier']['text']}
"""
    if not benign:
        text += f"""
YOUR TASK: write a realistic change to the library source (not to any test file) that BREAKS this property while the code still imports and the whole unedited test suite still passes. It should look like something a maintainer could plausibly commit (a refactor, an optimisation, a 'fix', a new convenience) - not sabotage with a marker. The breakage must need something SPECIFIC to manifest - a particular multi-step sequence of operations, a failure/exception or an interruption (Ctrl-C / exception from a callback) at a particular point, an unusual but legal input or configuration, or two cooperating edits that each look fine alone - not something ordinary use would expose at once. {steer}

Ideas already used against this property (choose a DIFFERENT mechanism and a different place in the code):
{chr(10).join(used) if used else '- (none yet)'}

DELIVERABLES (all inside {wt}/seeded/ - create that directory):
1. Leave your source change applied in the worktree, and also save it as {wt}/seeded/patch.diff (git diff -- robotools).
2. {wt}/seeded/demo.py: a small self-contained program that imports robotools from "{wt}" (as shown above), exercises the public API, and exits with status 1 (printing what went wrong) when the property is violated and 0 when it holds. It must exit 1 with your change and 0 without it (verify both: `git stash` is NOT allowed - use `git apply -R seeded/patch.diff` and `git apply seeded/patch.diff`).
3. {wt}/seeded/meta.json: {{"property": "{prop}", "summary": "<what the change does, 1-3 sentences>", "needs": "<what exactly is needed for the violation to manifest>", "files": ["<changed files>"]}}
Confirm yourself: test suite passes with the change (148 passed), demo exits 1 with / 0 without. Do not edit tests. Do not commit. Finish with the change applied. Report briefly what you did."""
    else:
        text += f"""
YOUR TASK (note: this is the opposite of bug-seeding): write a realistic, NON-TRIVIAL change to the library source (not to any test file) that changes the implementation - and, where the property leaves freedom, even observable behaviour - but under which this property STILL HOLDS in full, and the whole unedited test suite still passes. Think of what a maintainer might legitimately commit: restructuring (vectorising or de-vectorising a loop, splitting/merging helpers, reordering independent statements, validating everything up-front before mutating anything, making an operation all-or-nothing instead of partially applied on rejection), changing things the property does not pin down (wording of exception messages, wording of the large-volume note inside history labels as long as it still carries the label and the count, layout of `report`; extra validation that rejects only inputs the property says must be rejected, different-but-permitted exception subclasses, how save() writes the file (e.g. pathlib write_bytes, temp file + atomic replace), internal attribute names, caching, dtype handling, defensive copies). Do not add, remove or reorder emitted worklist records for accepted calls. Make the change as 'scary' for an over-fitted checker as you can while being certain the property as stated still holds for every input in its quantifier. {steer}

DELIVERABLES (all inside {wt}/seeded/ - create that directory):
1. Leave your source change applied in the worktree, and also save it as {wt}/seeded/patch.diff (git diff -- robotools).
2. {wt}/seeded/meta.json: {{"property": "{prop}", "summary": "<what the change does>", "why_property_still_holds": "<argument, clause by clause>", "files": ["<changed files>"]}}
3. {wt}/seeded/demo.py: a small program that imports robotools from "{wt}", exercises the changed code paths through the public API and checks the property's clauses on a few cases; it must exit 0 with your change AND without it.
Confirm yourself: test suite passes with the change (148 passed). Do not edit tests. Do not commit. `git stash` is NOT allowed. Finish with the change applied. Report briefly what you did."""
    if multi and not benign:
        text = text.replace("YOUR TASK: write a realistic change", "YOUR TASK: write TWO INDEPENDENT realistic changes (different mechanisms, different places; each on its own, starting from the unmodified code). For each: a realistic change")
        text = text.replace(f"DELIVERABLES (all inside {wt}/seeded/ - create that directory):", f"DELIVERABLES - for change k = 1 and 2 a directory {wt}/seeded/<k>/ holding patch.diff, demo.py and meta.json as described below (read 'seeded/' as 'seeded/<k>/'). Each patch.diff must apply to the UNMODIFIED code (git checkout -- robotools between the two). At the end leave the worktree clean of source changes (git checkout -- robotools); only the seeded/ directory remains. Per change:")
        text = text.replace("Finish with the change applied.", "Finish with the worktree source unmodified.")
    print(text)


if __name__ == "__main__":
    main()
