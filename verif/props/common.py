"""Shared plumbing for property modules: violations, statistics, scratch directories."""
import collections
import hashlib
import os
import shutil
import tempfile


class Violation:
    """One oracle clause failed on one concrete, replayable execution."""

    def __init__(self, prop, clause, spec, culprit, culprit_kind, outcome, detail, digest=None, facts=None):
        self.prop = prop
        self.clause = clause
        self.spec = spec  # concrete replay spec of exactly this execution
        self.culprit = culprit
        self.culprit_kind = culprit_kind
        self.outcome = outcome
        self.detail = detail
        self.digest = digest
        self.facts = facts or {}  # structured facts for the known-findings matchers

    def key(self):
        return (self.clause, self.culprit_kind)

    def to_json(self):
        return {"clause": self.clause, "culprit": self.culprit, "culprit_kind": self.culprit_kind,
                "outcome": self.outcome, "detail": self.detail, "digest": self.digest, "facts": self.facts}


class ExecBase:
    """Result of one execution: every oracle clause that failed (first per (clause, culprit kind))."""

    def __init__(self):
        self.violations = []
        self.digest = None
        self.events = None
        self.ops = []

    @property
    def violation(self):
        return self.violations[0] if self.violations else None

    def add(self, v):
        if not any(x.key() == v.key() for x in self.violations):
            self.violations.append(v)

    def find(self, key):
        for v in self.violations:
            if v.key() == tuple(key):
                return v
        return None


class Stats:
    """Per-worker counters, merged by the driver."""

    def __init__(self):
        self.evaluations = 0
        self.programs = 0
        self.faults = collections.Counter()
        self.probes = collections.Counter()
        self.transitions = set()
        self.digests = set()
        self.nontrivial_digests = set()
        self.durable = set()
        self.lines = 0
        self.crash_points = 0
        self.samples = []
        self.ended_by_rejection = 0
        self.replay_probe = 0

    def merge(self, o):
        self.evaluations += o.evaluations
        self.programs += o.programs
        self.faults.update(o.faults)
        self.probes.update(o.probes)
        self.transitions |= o.transitions
        self.digests |= o.digests
        self.nontrivial_digests |= o.nontrivial_digests
        self.durable |= o.durable
        self.lines += o.lines
        self.crash_points += o.crash_points
        if len(self.samples) < 3:
            self.samples.extend(o.samples[: 3 - len(self.samples)])
        self.ended_by_rejection += o.ended_by_rejection
        self.replay_probe += o.replay_probe

    def note_digest(self, d, nontrivial):
        b = bytes.fromhex(d)[:10]
        self.digests.add(b)
        if nontrivial:
            self.nontrivial_digests.add(b)


def short_hash(*parts):
    h = hashlib.sha256()
    for p in parts:
        h.update(repr(p).encode())
    return h.hexdigest()[:10]


def scratch_base():
    for d in ("/dev/shm", os.environ.get("TMPDIR") or "/tmp"):
        if os.path.isdir(d) and os.access(d, os.W_OK):
            return d
    return tempfile.gettempdir()


def scratch_root():
    """per-batch parent directory (set by the driver, removed by it at the end), else the base."""
    d = os.environ.get("RTVERIF_SCRATCH")
    if d and os.path.isdir(d):
        return d
    return scratch_base()


def janitor(max_age_s=1800):
    """removes scratch directories that a killed earlier batch left behind."""
    import time

    base = scratch_base()
    now = time.time()
    try:
        names = os.listdir(base)
    except OSError:
        return
    import re

    for n in names:
        # only directories this machinery creates itself (mkdtemp names), never a scratch copy of the repository
        if n.startswith("rtverif-batch-") or re.match(r"^rtverif-[a-z0-9_]{8}$", n):
            p = os.path.join(base, n)
            try:
                if now - os.path.getmtime(p) > max_age_s:
                    shutil.rmtree(p, ignore_errors=True)
            except OSError:
                pass


class Scratch:
    """A per-execution scratch directory, removed on exit."""

    def __enter__(self):
        self.path = tempfile.mkdtemp(prefix="rtverif-", dir=scratch_root())
        return self.path

    def __exit__(self, *a):
        shutil.rmtree(self.path, ignore_errors=True)
        return False


def arg_shape(x):
    if isinstance(x, list):
        if x and isinstance(x[0], list):
            return "2d"
        return "list1" if len(x) == 1 else "list"
    return "scalar"


def transition_key(world, op, outcome, extra=()):
    """Abstract transition: op kind x argument-shape class x labware kinds x device x outcome."""
    labs = world["labware"]

    def kind(i):
        return labs[i]["kind"][0] if isinstance(i, int) and 0 <= i < len(labs) else "-"

    k = op["op"]
    if k == "transfer":
        shapes = (arg_shape(op["sw"]), arg_shape(op["dw"]), arg_shape(op["volumes"]))
        lk = kind(op["src"]) + kind(op["dst"]) + ("=" if op["src"] == op["dst"] else "")
        ex = (str(op.get("wash", "d")), op.get("part", "d"))
    elif k == "distribute":
        shapes = (arg_shape(op["dw"]),)
        lk = kind(op["src"]) + kind(op["dst"])
        ex = ()
    elif "lab" in op:
        shapes = (arg_shape(op.get("wells")), arg_shape(op.get("volumes")))
        lk = kind(op["lab"])
        ex = ()
    else:
        shapes, lk, ex = (), "", ()
    return (k, shapes, lk, world["device"], outcome, ex) + tuple(extra)
