"""Entry point: seeded batch driver, minimisation, replay verification, evidence.

    /venv/bin/python -m verif.check C03 --tier quick
    /venv/bin/python -m verif.check C03 --replay replays/C03-....json

Exit codes: 0 = property held on everything explored (KNOWN-FINDING lines possible),
            1 = at least one `VIOLATION property=<id> replay=<path>` line was printed,
            2 = harness fault (never a pass, never a violation).
"""
import argparse
import concurrent.futures as cf
import faulthandler
import hashlib
import importlib
import json
import multiprocessing
import os
import random
import subprocess
import sys
import time
import traceback

ROOT = os.path.dirname(os.path.dirname(os.path.abspath(__file__)))

PROPS = {
    "C01": "verif.props.c01",
    "C02": "verif.props.c02",
    "C03": "verif.props.c03",
    "C04": "verif.props.c04",
    "C05": "verif.props.c05",
    "C11": "verif.props.c11",
    "C16": "verif.props.c16",
    "C17": "verif.props.c17",
}

BUDGET = {"quick": 35.0, "thorough": 840.0}
CHUNK = {"quick": 10, "thorough": 25}
MIN_RUNS = 50

_G = {}


def run_rng(seed, prop, index):
    h = hashlib.sha256(f"{seed}/{prop}/{index}".encode()).digest()
    return random.Random(int.from_bytes(h[:16], "big"))


def _worker(args):
    """Runs a contiguous chunk of run indices. Everything returned is picklable."""
    start, stop = args
    from .props.common import Stats

    mod = _G["mod"]
    seed, prop, tier = _G["seed"], _G["prop"], _G["tier"]
    faulthandler.dump_traceback_later(_G["hang_s"], exit=True)
    stats = Stats()
    viols = []
    errors = []
    for i in range(start, stop):
        rng = run_rng(seed, prop, i)
        try:
            vs = mod.explore(rng, tier, stats)
        except Exception as e:
            if _world_refused(e):
                # the library refused to construct an unusual-but-so-far-legal object of this world (a labware name
                # with a tab in it, say): nothing to simulate, nothing to judge
                stats.probes["world_refused_by_a_constructor"] += 1
                stats.last_exec = None
                continue
            errors.append((i, traceback.format_exc()))
            continue
        for v in vs:
            viols.append((i, v.spec, v.to_json()))
        le = getattr(stats, "last_exec", None)
        if le is not None:
            for lab in (le[0].get("world") or {}).get("labware", []):
                if lab.get("ids"):
                    stats.probes["plate_with_more_than_26_rows_offered_by_library"] += 1
                elif lab.get("tall_fallback"):
                    stats.probes["plate_with_more_than_26_rows_not_offered_fell_back_to_26"] += 1
        # continuous replay-fidelity probe: 1 run in 25 is re-executed from its recorded concrete form
        if i % 25 == 0 and getattr(stats, "last_exec", None) is not None:
            spec, digest = stats.last_exec
            try:
                res = mod.replay(json.loads(json.dumps(spec)))
                stats.replay_probe += 1
                if res.digest != digest:
                    # Either the harness is not deterministic (a fault), or the library keeps state across objects
                    # (a module-level memo that was cold during the run and is warm now shifts the line count at
                    # which an interrupt strikes). Two more executions tell the two apart: a warm library is stable.
                    r2 = mod.replay(json.loads(json.dumps(spec)))
                    r3 = mod.replay(json.loads(json.dumps(spec)))
                    if r2.digest == r3.digest == res.digest:
                        stats.probes["library_keeps_state_across_runs_cold_vs_warm"] += 1
                    else:
                        errors.append((i, f"replay-fidelity probe: digests {digest} / {res.digest} / {r2.digest} / {r3.digest}"))
            except Exception:
                errors.append((i, "replay-fidelity probe: " + traceback.format_exc()))
        # one run in twenty: the same script once more in the same process, *without* the reset of the library's
        # module- and class-level state that every run otherwise starts with - the second execution must hold too
        if i % 20 == 3 and getattr(stats, "last_exec", None) is not None and not vs:
            spec, _digest = stats.last_exec
            try:
                warm = dict(spec, warmup=1)
                res2 = run_replay(mod, warm)
                stats.probes["script_executed_twice_in_one_process"] += 1
                for v in res2.violations:
                    v.spec = dict(v.spec, warmup=1)
                    viols.append((i, v.spec, v.to_json()))
            except Exception:
                # a library may legitimately make a second run of the same script in one process impossible (say, a
                # registry that refuses a labware name twice): nothing to judge then
                stats.probes["second_execution_in_one_process_raised"] += 1
        if not stats.samples and getattr(stats, "last_exec", None) is not None:
            # guarantee at least one written-out case per batch, whatever the module's own sampling rule picked
            stats.samples.append({"note": "first execution of this worker", "spec": stats.last_exec[0]})
        stats.last_exec = None
    faulthandler.cancel_dump_traceback_later()
    if hasattr(stats, "last_exec"):
        del stats.last_exec
    return start, stop, stats, viols, errors


def run_replay(mod, spec):
    """Re-executes a recorded spec. `warmup: n` means: the same script has already run n times in this process
    (fresh objects each time) - the only way to reproduce, from a fresh interpreter, a defect that lives in
    process-global state of the library (a module-level cache keyed by the content of the world)."""
    from . import rt as rtmod

    base = {k: v for k, v in spec.items() if k != "warmup"}
    n = int(spec.get("warmup", 0) or 0)
    try:
        for j in range(n):
            rtmod.KEEP_STATE = j > 0  # the first execution starts in a fresh library, the later ones inherit its state
            try:
                mod.replay(json.loads(json.dumps(base)))
            except Exception:  # noqa
                pass
        rtmod.KEEP_STATE = n > 0
        return mod.replay(json.loads(json.dumps(base)))
    finally:
        rtmod.KEEP_STATE = False


def _world_refused(exc):
    """True if exc was raised inside the library while the harness was constructing the labware / worklist objects
    of a world (sim/world.py build_labware / build_worklist)."""
    from . import rt as rtmod

    tb = exc.__traceback__
    in_builder = False
    last = None
    while tb is not None:
        code = tb.tb_frame.f_code
        if code.co_name in ("build_labware", "build_worklist") and code.co_filename.endswith(os.path.join("sim", "world.py")):
            in_builder = True
        last = tb
        tb = tb.tb_next
    return bool(in_builder and last is not None and last.tb_frame.f_code.co_filename.startswith(rtmod.PKG_PREFIX))


def replay_file(prop, path):
    mod = importlib.import_module(PROPS[prop])
    with open(path) as f:
        doc = json.load(f)
    spec = doc["spec"] if "spec" in doc else doc
    res = run_replay(mod, spec)
    want = doc.get("violation") or {}
    v = res.find((want.get("clause"), want.get("culprit_kind"))) if want else None
    if v is None:
        v = res.violation
    out = {"reproduced": v is not None, "digest": res.digest}
    if v is not None:
        out.update({"clause": v.clause, "culprit": v.culprit, "culprit_kind": v.culprit_kind, "detail": v.detail,
                    "violation": v.to_json()})
    print("REPLAY " + json.dumps(out, sort_keys=True, default=str))
    if v is not None:
        from . import findings

        e = findings.find(findings.load(), {"spec": spec, "violation": v.to_json()})
        if e is not None:
            print(f"KNOWN-FINDING: property={prop} {e['id']} {e.get('what', '')} [clause={v.clause} replay={path}]")
            return 0
        print(f"VIOLATION property={prop} replay={path}")
        return 1
    return 0


def verify_in_subprocess(prop, path, expect):
    """Replays the file in a fresh interpreter under another PYTHONHASHSEED."""
    env = dict(os.environ)
    env["PYTHONHASHSEED"] = "4242" if os.environ.get("PYTHONHASHSEED") != "4242" else "7"
    env["PYTHONDONTWRITEBYTECODE"] = "1"
    p = subprocess.run([sys.executable, "-m", "verif.check", prop, "--replay", path], cwd=ROOT, env=env,
                       capture_output=True, text=True, timeout=300)
    for line in p.stdout.splitlines():
        if line.startswith("REPLAY "):
            got = json.loads(line[7:])
            ok = got.get("reproduced") and got.get("clause") == expect["clause"] and \
                got.get("culprit_kind") == expect["culprit_kind"] and \
                (expect.get("digest") is None or got.get("digest") == expect["digest"])
            return bool(ok), got
    return False, {"stdout": p.stdout[-2000:], "stderr": p.stderr[-2000:]}


def main(argv=None):
    ap = argparse.ArgumentParser()
    ap.add_argument("prop")
    ap.add_argument("--tier", default=os.environ.get("VERIF_TIER", "quick"), choices=["quick", "thorough"])
    ap.add_argument("--replay")
    ap.add_argument("--seed", type=int, default=int(os.environ.get("VERIF_SEED", "0") or 0))
    ap.add_argument("--budget", type=float, default=None)
    ap.add_argument("--workers", type=int, default=int(os.environ.get("VERIF_WORKERS", "0") or 0))
    ap.add_argument("--max-runs", type=int, default=int(os.environ.get("VERIF_MAX_RUNS", "0") or 0))
    ap.add_argument("--no-evidence", action="store_true")
    ap.add_argument("--stop-at-first", action="store_true",
                    help="development aid (seeded-change matrix): hand out no further run indices once a violation "
                         "that matches no known finding has come back; never used by the registered commands")
    a = ap.parse_args(argv)
    prop = a.prop
    if prop not in PROPS:
        print(f"unknown property {prop}", file=sys.stderr)
        return 2
    os.chdir(ROOT)
    sys.dont_write_bytecode = True
    from . import rt

    try:
        rt.load()
    except Exception:
        traceback.print_exc()
        print("HARNESS-FAULT: cannot load robotools from " + rt.REPO)
        return 2
    if a.replay:
        try:
            return replay_file(prop, a.replay)
        except Exception:
            traceback.print_exc()
            print("HARNESS-FAULT: replay raised")
            return 2

    mod = importlib.import_module(PROPS[prop])
    # scratch: one parent directory per batch under /dev/shm, removed at the end whatever happens
    import atexit
    import shutil
    import tempfile
    from .props import common as _common

    _common.janitor()
    parent = tempfile.mkdtemp(prefix="rtverif-batch-", dir=_common.scratch_base())
    os.environ["RTVERIF_SCRATCH"] = parent
    atexit.register(shutil.rmtree, parent, True)
    tier = a.tier
    budget = a.budget if a.budget is not None else float(os.environ.get("VERIF_BUDGET_S") or BUDGET[tier])
    workers = a.workers or min(16, os.cpu_count() or 1)
    chunk = getattr(mod, "CHUNK", CHUNK)[tier]
    print(f"# check {prop} tier={tier} seed={a.seed} budget={budget}s workers={workers} repo={rt.REPO}")
    sys.stdout.flush()
    _G.update(mod=mod, seed=a.seed, prop=prop, tier=tier, hang_s=max(300.0, budget * 2 + 120))
    # main-process watchdog: SIGALRM, not faulthandler - a faulthandler watchdog thread armed before the
    # fork leaves its lock held in the children and deadlocks their own dump_traceback_later call.
    import signal

    def _alarm(signum, frame):
        print("HARNESS-FAULT: wall-clock watchdog fired")
        sys.stdout.flush()
        shutil.rmtree(parent, True)
        os._exit(2)

    signal.signal(signal.SIGALRM, _alarm)
    signal.alarm(int(budget * 6 + 1200))

    from .props.common import Stats

    t0 = time.time()
    total = Stats()
    viols = []
    errors = []
    next_index = 0
    covered = []
    ctx = multiprocessing.get_context("fork")
    with cf.ProcessPoolExecutor(max_workers=workers, mp_context=ctx) as ex:
        pending = set()

        def more():
            if a.max_runs and next_index >= a.max_runs:
                return False
            if a.stop_at_first and _G.get("stop"):
                return False
            el = time.time() - t0
            if el < budget:
                return True
            return next_index < MIN_RUNS and el < budget * 5

        while True:
            while len(pending) < workers * 2 and more():
                stop = next_index + chunk
                if a.max_runs:
                    stop = min(stop, a.max_runs)
                pending.add(ex.submit(_worker, (next_index, stop)))
                next_index = stop
            if not pending:
                break
            done, pending = cf.wait(pending, timeout=max(600.0, budget), return_when=cf.FIRST_COMPLETED)
            if not done:
                print("HARNESS-FAULT: workers stalled")
                os._exit(2)
            for fut in done:
                try:
                    s, e, st, vs, er = fut.result()
                except Exception:
                    errors.append((-1, traceback.format_exc()))
                    continue
                covered.append((s, e))
                total.merge(st)
                viols.extend(vs)
                errors.extend(er)
                if a.stop_at_first and not _G.get("stop"):
                    from . import findings as _f
                    ents = _G.setdefault("entries", _f.load())
                    if any(_f.find(ents, {"spec": sp, "violation": vj}) is None for _, sp, vj in vs):
                        _G["stop"] = True
    explore_s = time.time() - t0
    runs = sum(e - s for s, e in covered)

    # ------------------------------------------------------------------ violations: minimise, verify, report
    from . import findings
    from .sim.shrink import shrink

    entries = findings.load()
    viols.sort(key=lambda x: x[0])
    groups = {}
    for idx, spec, vj in viols:
        groups.setdefault((vj["clause"], vj["culprit_kind"]), []).append((idx, spec, vj))
    exit_code = 0
    lines = []
    known_hits = {}
    n_viol_reported = 0
    os.makedirs(os.path.join(ROOT, "replays"), exist_ok=True)
    keep_last = getattr(mod, "KEEP_LAST_OP", False)
    shrink_budget = 20.0 if tier == "quick" else 90.0
    for gi, (key, items) in enumerate(sorted(groups.items(), key=lambda kv: kv[1][0][0])):
        # a known finding must be matched by *every* member we look at, before and after minimisation;
        # look at up to 5 members so a new bug cannot hide behind an old one with the same clause.
        unknown = []
        for idx, spec, vj in items[:40]:
            doc = {"spec": spec, "violation": vj}
            e = findings.find(entries, doc)
            if e is None:
                unknown.append((idx, spec, vj))
                if len(unknown) >= 1:
                    break
        cand = unknown[0] if unknown else items[0]
        idx, spec, vj = cand
        pre_entry = findings.find(entries, {"spec": spec, "violation": vj})

        def rf(s, key=key):
            return mod.replay(s).find(key)

        small = spec
        used = 0
        if gi < 8:
            try:
                # a group that already matches a known finding only needs enough shrinking to re-check the match
                small, used = shrink(rf, spec, key, max_seconds=(shrink_budget if pre_entry is None else min(shrink_budget, 6.0)),
                                     keep_last=keep_last or bool(spec.get("fault")))
            except Exception:
                errors.append((idx, "shrinker: " + traceback.format_exc()))
                small = spec
        v = None
        res = None
        try:
            res = mod.replay(json.loads(json.dumps(small)))
            v = res.find(key)
            if v is None and small is not spec:
                small = spec
                res = mod.replay(json.loads(json.dumps(small)))
                v = res.find(key)
        except Exception:
            errors.append((idx, "replay of minimised spec raised: " + traceback.format_exc()))
            continue
        doc = None
        path = None
        if v is not None:
            vj2 = v.to_json()
            vj2["digest"] = res.digest
            doc = {"format": 1, "property": prop, "seed": a.seed, "run": idx, "tier": tier,
                   "spec": small, "violation": vj2, "shrink_replays": used, "group_size": len(items)}
            ch = hashlib.sha256(json.dumps([key, small], sort_keys=True).encode()).hexdigest()[:8]
            os.makedirs(os.path.join(ROOT, "replays"), exist_ok=True)
            path = os.path.join(ROOT, "replays", f"{prop}-{a.seed}-{idx}-{ch}.json")
            with open(path, "w") as f:
                json.dump(doc, f, indent=1, sort_keys=True)
            ok, got = verify_in_subprocess(prop, path, {"clause": v.clause, "culprit_kind": v.culprit_kind,
                                                         "digest": res.digest})
            if not ok:
                os.remove(path)
                doc = None
        if doc is None:
            # The violation does not reproduce from its own recorded script in a fresh interpreter: what happened in
            # this process before the run mattered - i.e. the library keeps state across objects (module level,
            # class level). Try the unminimised script with itself as its own past (warm-up), verified twice in
            # fresh interpreters; only if that fails too it is a fault of the harness.
            for warm in (0, 1, 2):
                cand = dict(spec, warmup=warm) if warm else spec
                ch = hashlib.sha256(json.dumps([key, cand], sort_keys=True).encode()).hexdigest()[:8]
                path = os.path.join(ROOT, "replays", f"{prop}-{a.seed}-{idx}-{ch}.json")
                doc = {"format": 1, "property": prop, "seed": a.seed, "run": idx, "tier": tier, "spec": cand,
                       "violation": {"clause": key[0], "culprit_kind": key[1]}, "shrink_replays": used,
                       "group_size": len(items), "note": "not minimised: depends on state the library keeps across objects"}
                with open(path, "w") as f:
                    json.dump(doc, f, indent=1, sort_keys=True)
                ok1, got1 = verify_in_subprocess(prop, path, {"clause": key[0], "culprit_kind": key[1]})
                ok2, got2 = verify_in_subprocess(prop, path, {"clause": key[0], "culprit_kind": key[1]}) if ok1 else (False, None)
                if ok1 and ok2 and got1.get("digest") == got2.get("digest") and got1.get("violation"):
                    doc["violation"] = dict(got1["violation"], digest=got1["digest"])
                    with open(path, "w") as f:
                        json.dump(doc, f, indent=1, sort_keys=True)
                    small = cand

                    class _V:  # what the report lines need
                        clause, culprit, culprit_kind = got1["clause"], got1["culprit"], got1["culprit_kind"]
                        detail, outcome = got1["detail"], got1["violation"].get("outcome")
                    v = _V
                    break
                os.remove(path)
                doc = None
            if doc is None:
                errors.append((idx, f"violation {key} of run {idx} does not reproduce from its recorded spec in a fresh "
                                    f"interpreter, not even with the script itself as warm-up"))
                continue
        post_entry = findings.find(entries, doc)
        is_known = pre_entry is not None and post_entry is not None and pre_entry.get("id") == post_entry.get("id")
        if is_known:
            os.makedirs(os.path.join(ROOT, "replays", "known"), exist_ok=True)
            kp = os.path.join(ROOT, "replays", "known", os.path.basename(path))
            os.replace(path, kp)
            path = kp
        if is_known:
            known_hits[pre_entry["id"]] = known_hits.get(pre_entry["id"], 0) + len(items)
            lines.append(f"KNOWN-FINDING: property={prop} {pre_entry['id']} {pre_entry.get('what', '')} "
                         f"[clause={v.clause} culprit={v.culprit_kind} runs={len(items)} replay={path}]")
        else:
            n_viol_reported += 1
            exit_code = 1
            lines.append(f"# clause={v.clause} culprit_op={v.culprit_kind}#{v.culprit} outcome={v.outcome} "
                         f"run={idx} group_size={len(items)}\n# {v.detail}")
            lines.append(f"VIOLATION property={prop} replay={path}")
    wall = time.time() - t0

    # ------------------------------------------------------------------ evidence
    ev = {
        "property_id": prop,
        "tier": tier,
        "seed": a.seed,
        "level": getattr(mod, "LEVEL", "exploration"),
        "coverage": {
            "evaluations": total.evaluations,
            "distinct_nontrivial": len(total.nontrivial_digests),
            "rule": getattr(mod, "RULE", ""),
            "samples": total.samples[:3],
            "exhaustive": False,
            "runs": runs,
            "run_index_range": [0, next_index],
            "programs": total.programs,
            "distinct_event_logs": len(total.digests),
            "abstract_transitions": len(total.transitions),
            "abstract_transitions_measure": "distinct (op kind, argument-shape classes, labware kinds, device, outcome class, options) tuples",
            "distinct_durable_states": len(total.durable),
            "crash_points_enumerated": total.crash_points,
            "line_events_traced": total.lines,
            "faults_fired": dict(sorted(total.faults.items())),
            "probes": dict(sorted(total.probes.items())),
            "ended_by_rejection": total.ended_by_rejection,
            "replay_fidelity_probes": total.replay_probe,
            "runs_per_hour": int(runs / max(explore_s, 1e-9) * 3600),
            "evaluations_per_hour": int(total.evaluations / max(explore_s, 1e-9) * 3600),
            "simulated_time": "not applicable - the system under test reads no clock; logical steps are operations and line events",
            "components": getattr(mod, "COMPONENTS", {}),
            "known_findings_hit": known_hits,
            "workers": workers,
            "explore_wall_s": round(explore_s, 2),
        },
        "assumptions": getattr(mod, "ASSUMPTIONS", []) + [
            "python without -O (several refusals in robotools are assert statements)",
            "robotools imported from " + rt.REPO,
        ],
        "wall_s": round(wall, 2),
        "violations": n_viol_reported,
    }
    if errors:
        ev["coverage"]["harness_errors"] = len(errors)
    if not a.no_evidence:
        os.makedirs(os.path.join(ROOT, "evidence"), exist_ok=True)
        with open(os.path.join(ROOT, "evidence", f"{prop}.json"), "w") as f:
            json.dump(ev, f, indent=1, sort_keys=True, default=str)

    print(f"# runs={runs} evaluations={total.evaluations} distinct_nontrivial={len(total.nontrivial_digests)} "
          f"crash_points={total.crash_points} wall={wall:.1f}s")
    print(f"# faults_fired={dict(total.faults)}")
    for ln in lines:
        print(ln)
    if errors:
        for idx, tb in errors[:5]:
            print(f"HARNESS-FAULT run={idx}: {tb}", file=sys.stderr)
        print(f"HARNESS-FAULT: {len(errors)} harness error(s); see stderr")
        return 1 if exit_code == 1 else 2
    refused = total.probes.get("world_refused_by_a_constructor", 0)
    if refused > 0.5 * max(runs, 1):
        print(f"HARNESS-FAULT: the library refused to construct the objects of {refused} of {runs} worlds")
        return 1 if exit_code == 1 else 2
    if runs < MIN_RUNS and not a.max_runs and not a.stop_at_first:
        print(f"HARNESS-FAULT: only {runs} runs completed (floor {MIN_RUNS})")
        return 2
    return exit_code


if __name__ == "__main__":
    sys.exit(main())
