"""C01 - the emitted worklist reproduces the tracked labware state when executed.

A second party (the robot interpreter) executes the newly appended records after every operation
and, at the end, the whole file read back from a real scratch directory.
See DESIGN.md section 5 / C01.
"""
from fractions import Fraction

from ..sim import ops as opsmod
from ..sim.bench import Session, ShapeChanged, digest_events, raised_in_sut
from ..sim.gen import Gen
from ..sim.geom import dec, frac
from ..sim.robot import DecodeError, Robot
from ..sim.world import gen_world, prepare_disk
from .common import ExecBase, Scratch, Violation, short_hash, transition_key

PROP = "C01"
LEVEL = "exploration"
RULE = ("A case is one seeded program of successful aspirate/dispense/transfer/distribute calls (interleaved with "
        "comment/wash/flush/commit/decontaminate/set_diti) inside a real with-block on one device; strata (device x "
        "regime x trough/plate roles x wash scheme x partition mode) are visited by the seed. The robot interpreter "
        "executes the new records after every operation and the written file at the end. Distinct = distinct "
        "event-log digest; non-trivial = at least two liquid operations succeeded and at least one A/D/R record "
        "was decoded.")
COMPONENTS = {"real": ["EvoWorklist/FluentWorklist liquid methods and numbering", "Labware/Trough tracking and composition",
                       "BaseWorklist.__exit__/save", "file system (tmpfs scratch)"],
              "stub": ["user script (seeded generator)", "robot interpreter (peer model of the Tecan .gwl semantics)"]}
ASSUMPTIONS = ["per-record 0.005 rounding slack only in the free-float regime; quarter/centi regimes are exact",
               "compositions compared in the quarter/centi regimes only, on wells whose content is fully known",
               "robot-side grouping of queued A/D records across tips is not modelled (no property speaks about it)"]


def slacks(world):
    r = world["regime"]
    e = Fraction(1, 10 ** 9)
    if r == "quarter":
        return Fraction(0), e, Fraction(1, 10 ** 9)
    if r == "centi":
        return e, e, Fraction(1, 10 ** 6)
    return Fraction(5, 1000) + e, e, None


class Exec(ExecBase):
    def __init__(self):
        super().__init__()
        self.ok_liquid = 0
        self.decoded = 0
        self.ended_by_rejection = False
        self.resynced_after_rejection = False
        self.other_liquid = False
        self.outcomes = []
        self.probes = {}


def prov_for(op, pl):
    """provenance of the D records an operation emits, in emission order."""
    k = op["op"]
    if k in ("transfer", "distribute"):
        # a D record written by a transfer - or by a distribution that chose to pipette single steps instead of an
        # R record - delivers what the A record before it took up
        return lambda j: {"op": "transfer"}
    if k == "dispense":
        comps = [st[4] for st in pl["steps"] if st[3] > 0]

        def f(j):
            c = comps[j] if j < len(comps) else None
            return {"op": "dispense", "comp": None if c is None else {n: frac(v) for n, v in c.items()}}

        return f
    return lambda j: None


def _latin1(text):
    try:
        text.encode("latin-1")
        return True
    except UnicodeEncodeError:
        return False


def execute(world, opsource):
    res = Exec()
    slack, eps, ftol = slacks(world)

    def fail(clause, idx, op, outcome, detail, facts=None):
        spec = {"format": 1, "property": PROP, "world": world, "ops": res.ops}
        res.add(Violation(PROP, clause, spec, idx, op["op"] if op else None, outcome, detail, facts=facts or {}))

    with Scratch() as scratch:
        target = prepare_disk(world, scratch)
        sess = Session(world, scratch=scratch)
        device = world["device"]
        track = ftol is not None
        robot = Robot(device, world["labware"], per_record_slack=slack, eps=eps, track_comp=track)
        name_map = resolve_silent_names(sess, robot)
        provs = []  # provenance per record index
        orobots, oseen = [], []  # robots of further worklists that work on the same labware objects; their cursors
        seen = 0
        nops = 0
        body_done = False
        save_refused = False
        try:
            with sess.wl:
                i = 0
                while True:
                    op = opsource(i, sess)
                    if op is None:
                        break
                    res.ops.append(op)
                    out = sess.step(op)
                    res.outcomes.append(out.exc_type if not out.ok else "ok")
                    via = op["op"] == "via_other"
                    if op["op"] == "other_worklist" and out.ok:
                        # a second robot (possibly of the other kind) working on the very same labware objects
                        rk = Robot(op.get("device", device), world["labware"], per_record_slack=slack, eps=eps, track_comp=track)
                        rk.labs = robot.labs
                        rk.excursions = robot.excursions
                        orobots.append(rk)
                        oseen.append(len(sess.others[-1]))
                    if via:
                        if not out.ok or op["k"] >= len(orobots):
                            res.ended_by_rejection = True
                            break
                        res.other_liquid = True
                    eop = op["inner"] if via else op
                    liquid = eop["op"] in ("aspirate", "dispense", "transfer", "distribute")
                    if not out.ok:
                        if liquid or len(sess.wl) != seen:
                            # the statement is about successful sequences: a rejected liquid operation leaves the
                            # twin legitimately ahead of the records. Either the run ends here without verdict, or
                            # (worlds with `continue_after_rejection`) the script catches the error and carries on:
                            # the state the rejection left behind is then simply the start state of a new sequence
                            # of successful operations - the robot executes whatever records the refused call did
                            # append, adopts the twin's volumes (all content unknown from here) and the comparison
                            # goes on with the operations that follow.
                            if not world.get("continue_after_rejection"):
                                res.ended_by_rejection = True
                                break
                            recs = sess.records()
                            for rec in recs[seen:]:
                                provs.append(None)
                                try:
                                    robot.execute(rec, None)
                                except DecodeError:
                                    pass
                            seen = len(recs)
                            resync(robot, sess)
                            res.resynced_after_rejection = True
                            res.probes["continued_after_rejection"] = res.probes.get("continued_after_rejection", 0) + 1
                        i += 1
                        continue
                    recs = sess.records()
                    new = recs[seen:]
                    rb = robot
                    if via:
                        orecs = [str(r) for r in sess.others[op["k"]]]
                        new_other = orecs[oseen[op["k"]]:]
                        oseen[op["k"]] = len(orecs)
                        if new:
                            fail("C01.route", i, op, "ok", f"an operation issued through another worklist appended {len(new)} records to this one")
                        new, rb = new_other, orobots[op["k"]]
                    try:
                        pl = opsmod.plan(eop, sess.geos) if liquid else None
                    except opsmod.PlanInvalid:
                        pl = None
                    pf = prov_for(eop, pl) if pl is not None else (lambda j: None)
                    effects = []
                    dcount = 0
                    desync = False
                    for rec in new:
                        pr = None
                        if rec.startswith("D;"):
                            pr = pf(dcount)
                            dcount += 1
                        if not via:
                            provs.append(pr)
                        try:
                            eff = rb.execute(rec, pr)
                            if eff:
                                res.decoded += 1
                            effects.append((rec, eff))
                        except DecodeError as e:
                            fail("C01.decode", i, op, "ok", f"record {rec!r} cannot be executed on {rb.device}: {e}",
                                 {"side": getattr(e, "side", None), "record_type": rec[:1], "record": rec})
                            desync = True
                    seen = len(recs)
                    if liquid:
                        res.ok_liquid += 1
                    if liquid and pl is not None and not desync:
                        d = check_route(eop, pl, effects, sess, slack, eps)
                        if d:
                            fail("C01.route", i, op, "ok", d)
                            desync = True
                    if not desync:
                        d = check_volumes(robot, sess, nops)
                        if d:
                            fail("C01.volume", i, op, "ok", d)
                            desync = True
                    if not desync and track:
                        # after each operation: the wells its records touched (all wells again at the end of the run)
                        touched = {(name, w) for _rec, eff in effects for (name, w, _dv) in eff}
                        d = check_composition(robot, sess, ftol, name_map, touched)
                        if d:
                            fail("C01.composition", i, op, "ok", d)
                            desync = True
                    if desync:
                        resync(robot, sess)
                    nops += 1
                    i += 1
                if track and not res.violations and res.ops and not res.ended_by_rejection:
                    d = check_composition(robot, sess, ftol, name_map)
                    if d:
                        fail("C01.composition", len(res.ops) - 1, res.ops[-1], "ok", "at the end of the run: " + d)
                body_done = True
        except UnicodeEncodeError as e:
            # leaving the with block saves; records that cannot be written in the format's encoding (Latin-1) are
            # refused loudly - the only faithful answer.  Anything else is treated like any other exception.
            if body_done and not all(_latin1(r) for r in sess.records()):
                save_refused = True
            elif not raised_in_sut(e):
                raise
            else:
                fail("C01.observe", len(res.ops) - 1, res.ops[-1] if res.ops else None, "ok",
                     "leaving the with block raised UnicodeEncodeError although every record is Latin-1 text")
        except ShapeChanged as e:
            fail("C01.volume", len(res.ops) - 1, res.ops[-1] if res.ops else None, "ok",
                 f"Labware.volumes of labware {e.args[0]} has shape {e.args[1]}")
        except Exception as e:  # noqa
            if not raised_in_sut(e):
                raise
            fail("C01.observe", len(res.ops) - 1, res.ops[-1] if res.ops else None, "ok",
                 f"observing the labware raised {type(e).__name__} inside robotools")
        # ---- the file the robot actually gets
        recs = sess.records()
        last = len(res.ops) - 1
        lop = res.ops[-1] if res.ops else None
        try:
            with open(target, "rb") as f:
                data = f.read()
        except FileNotFoundError:
            data = None
        if save_refused:
            res.probes["save_refused_not_latin1"] = 1
        elif data is None:
            fail("C01.file", last, lop, "ok", "no file was written on leaving the with block")
        elif not res.violations and not res.ended_by_rejection:
            text = data.decode("latin-1")
            lines = text.split("\r\n") if text else []
            if lines != recs:
                fail("C01.file", last, lop, "ok", f"the file holds {len(lines)} lines that differ from the {len(recs)} records")
            elif not res.resynced_after_rejection and not res.other_liquid:
                r2 = Robot(device, world["labware"], per_record_slack=slack, eps=eps, track_comp=track)
                try:
                    for j, rec in enumerate(lines):
                        r2.execute(rec, provs[j] if j < len(provs) else None)
                    for name, lab in robot.labs.items():
                        l2 = r2.labs[name]
                        if lab.vol != l2.vol or (track and (lab.comp != l2.comp or lab.taint != l2.taint)):
                            fail("C01.file", last, lop, "ok", f"replaying the file from scratch gives another state of {name} than the step-wise replay")
                            break
                except DecodeError as e:
                    fail("C01.file", last, lop, "ok", f"file replay: {e}")
        res.events = sess.events + [("file", short_hash(data))]
        res.digest = digest_events(res.events)
        for v in res.violations:
            v.digest = res.digest
    return res


def resolve_silent_names(sess, robot):
    """1 x N plates: the statement is silent on the default name - adopt what the labware reports."""
    mapping = {}
    for i, g in enumerate(sess.geos):
        lab = robot.labs[g.name]
        comp = sess.composition(i)
        for w, c in lab.comp.items():
            for k in list(c):
                if k.startswith("\x00silent:"):
                    names = [n for n, arr in comp.items() if arr[w] == 1.0]
                    mapping[k] = names[0] if len(names) == 1 else k
    return mapping


def check_route(op, pl, effects, sess, slack, eps):
    """decoded moves of the records this operation appended == requested moves."""
    names = [g.name for g in sess.geos]
    req = {}
    named = set()
    for st in pl["steps"]:
        v = frac(st[3])
        key = (names[st[1]], st[2], "-" if st[0] == "rm" else "+")
        named.add(key)
        if v <= 0:
            continue
        req[key] = req.get(key, 0) + v
    got = {}
    cnt = {}
    for rec, eff in effects:
        for n, (name, w, dv) in enumerate(eff):
            if rec.startswith("R;"):
                sign = "-" if n == 0 else "+"
            else:
                sign = "-" if rec.startswith("A;") else "+"
            key = (name, w, sign)
            got[key] = got.get(key, 0) + abs(dv)
            cnt[key] = cnt.get(key, 0) + (0 if rec.startswith("R;") else 1)
    for key in sorted(set(req) | set(got), key=str):
        r, g = req.get(key, Fraction(0)), got.get(key, Fraction(0))
        t = slack * cnt.get(key, 0) + eps * max(1, abs(r))
        if key not in req and key in named and g == 0:
            continue  # a zero-volume record at a well the operation named with volume 0
        if key not in req:
            return (f"a record moves {key[2]}{float(g)} at {key[0]}{key[1]}, a well the operation did not name "
                    f"for that direction")
        if abs(r - g) > t:
            return f"{key[0]}{key[1]}: records move {key[2]}{float(g)}, the operation requested {key[2]}{float(r)}"
    if op["op"] == "transfer":
        # pairing: flows per (source well, destination well)
        reqf = {}
        si, di = op["src"], op["dst"]
        for (s, d, v, _sid, _did) in pl["triples"]:
            if v > 0:
                reqf[(s, d)] = reqf.get((s, d), 0) + frac(v)
        gotf = {}
        cntf = {}
        pending = None
        for rec, eff in effects:
            if rec.startswith("A;") and eff:
                pending = eff[0]
            elif rec.startswith("D;") and eff:
                if pending is None:
                    return f"dispense record {rec!r} without a preceding aspirate"
                if pending[0] != names[si] or eff[0][0] != names[di]:
                    return f"transfer pair addresses racks {pending[0]!r}->{eff[0][0]!r}"
                if -pending[2] != eff[0][2]:
                    return f"aspirate/dispense pair with different volumes: {float(-pending[2])} vs {float(eff[0][2])}"
                k = (pending[1], eff[0][1])
                gotf[k] = gotf.get(k, 0) + eff[0][2]
                cntf[k] = cntf.get(k, 0) + 1
                pending = None
        for k in set(reqf) | set(gotf):
            r, g = reqf.get(k, Fraction(0)), gotf.get(k, Fraction(0))
            if abs(r - g) > slack * cntf.get(k, 0) + eps * max(1, abs(r)):
                return (f"flow {names[si]}{k[0]} -> {names[di]}{k[1]}: records carry {float(g)}, "
                        f"the transfer requested {float(r)}")
    return None


def check_volumes(robot, sess, nops):
    for i, g in enumerate(sess.geos):
        lab = robot.labs[g.name]
        tv = sess.volumes(i)
        for w, v in lab.vol.items():
            t = tv[w]
            if t != t:
                return f"{g.name}{w}: Labware reports NaN"
            tol = robot._tol(lab, w) + Fraction(1, 10 ** 9) * max(1, abs(v))
            if abs(v - frac(t)) > tol:
                return f"{g.name}{w}: executing the records gives {float(v)!r}, the Labware reports {t!r}"
    return None


def check_composition(robot, sess, ftol, name_map, only=None):
    """only: set of (labware name, real well) to look at (the wells the operation's records touched); None = all."""
    for i, g in enumerate(sess.geos):
        lab = robot.labs[g.name]
        comp = None
        for w, v in lab.vol.items():
            if v <= 0 or w in lab.taint:
                continue
            if only is not None and (g.name, w) not in only:
                continue
            if comp is None:
                comp = sess.composition(i)
            exp = {}
            for k, f in lab.comp[w].items():
                nk = name_map.get(k, k)
                exp[nk] = exp.get(nk, 0) + f
            if any(k.startswith("\x00") for k in exp):
                continue
            for k in set(exp) | set(comp):
                e = exp.get(k, Fraction(0))
                got = comp.get(k, {}).get(w, 0.0)
                if got != got or abs(frac(got) - e) > ftol:
                    return (f"{g.name}{w}: executing the records gives fraction {float(e)!r} of {k!r}, "
                            f"Labware.composition reports {got!r}")
            wid = g.well_id(w[0], w[1])
            wc = sess.well_composition(i, wid)
            if wc is not None:
                for k, e in exp.items():
                    got = wc.get(k, 0.0)
                    if e > ftol and (got != got or abs(frac(got) - e) > ftol):
                        return f"{g.name}.{wid}: get_well_composition reports {got!r} of {k!r}, the records give {float(e)!r}"
    return None


def resync(robot, sess):
    """after a reported violation: continue from the twin's state (volumes) with all content unknown."""
    for i, g in enumerate(sess.geos):
        lab = robot.labs[g.name]
        tv = sess.volumes(i)
        for w in lab.vol:
            t = tv[w]
            lab.vol[w] = frac(t) if t == t else Fraction(0)
            lab.taint.add(w)


# ----------------------------------------------------------------------------------- generation
class Program:
    def __init__(self, rng, tier, index=0):
        self.rng = rng
        opts = {"auto_split": True, "patterns": ["full", "uniform", "mixed", "mixed", "empty"], "unicode_names": True}
        if rng.random() < 0.5:
            opts["need_trough"] = True
            opts["need_plate"] = True
        if rng.random() < 0.9:
            opts["integer_max_volume"] = True
        self.world = gen_world(rng, opts)
        self.gen = Gen(rng, self.world, {"p_comp": 0.75})
        if rng.random() < 0.4:
            self.world["continue_after_rejection"] = True
        r = rng.random()
        self.n = rng.randint(1, 6) if r < 0.5 else rng.randint(5, 14) if r < 0.9 else rng.randint(15, 40)
        if tier == "thorough" and rng.random() < 0.2:
            self.n = rng.randint(60, 300)  # thorough tier: some very long histories
        elif tier != "thorough" and rng.random() < 0.008:
            self.n = rng.randint(110, 280)  # quick tier: the occasional very long script (more than 100 / 256 steps)

    def source(self, i, sess):
        op = self._source(i, sess)
        self.last_op = op
        return op

    def _source(self, i, sess):
        if i >= self.n:
            return None
        rng, g = self.rng, self.gen
        last = getattr(self, "last_op", None)
        if last is not None and last["op"] in ("aspirate", "dispense", "transfer", "distribute") and rng.random() < 0.05 \
                and sess.events and sess.events[-1][2] == "ok" and not last.get("vself"):
            # the script repeats its previous call (a loop body executed twice) - verbatim, or without its label
            import copy
            rep = copy.deepcopy(last)
            if rng.random() < 0.5:
                if rep["op"] == "distribute":
                    (rep.get("kw") or {}).pop("label", None)
                elif rep.get("label"):
                    rep["label"] = None
            return rep
        r = rng.random()
        if r < 0.03:
            # a call of a form the library refuses (argument lengths that do not pair up): refused -> the run ends
            # without verdict as for any rejected liquid call; silently accepted -> twin and records are compared
            return self.bad_form(sess)
        if r < 0.12:
            if rng.random() < 0.15:
                # a long protocol header: the worklist (and the file) grows past 1000 / 2048 records
                return {"op": "bulk_comment", "n": rng.choice([999, 1000, 1001, 2049, 3000]), "text": "step ", "width": rng.choice([0, 40])}
            return g.gen_misc()
        if r < 0.19 and self.world.get("continue_after_rejection"):
            # a call the library refuses (caught by the script, which carries on)
            q = rng.random()
            if q < 0.2:
                return g.gen_invalid(sess, ["nan", "negative", "comps_len", "lenmismatch"])
            if q < 0.5:
                return g.gen_transfer(sess, rng.choice(["reject.underflow", "reject.overflow"]))
            kind = rng.choice(["aspirate", "dispense"])
            return g.gen_addremove(sess, kind, intent="reject.underflow" if kind == "aspirate" else "reject.overflow")
        if r < 0.235 and len(self.world["labware"]) and rng.random() < 0.5:
            # a second worklist object of the other device kind that works on the same labware objects
            if not getattr(sess, "others", None):
                from ..sim.geom import enc as _enc
                w = self.world["worklist"]
                other_dev = "fluent" if self.world["device"] == "evo" else "evo"
                return {"op": "other_worklist", "device": other_dev if rng.random() < 0.8 else self.world["device"],
                        "max_volume": w["max_volume"], "auto_split": w["auto_split"], "diti_mode": w["diti_mode"]}
            q = rng.random()
            inner = g.gen_transfer(sess, "ok") if q < 0.5 else g.gen_addremove(sess, rng.choice(["aspirate", "dispense"]), intent="ok")
            return {"op": "via_other", "k": 0, "inner": inner}
        if r < 0.215:
            op = g.gen_self_volumes(sess)
            if op is not None:
                return op
        if r < 0.55:
            return g.gen_transfer(sess, "ok")
        if r < 0.70:
            d = g.gen_distribute(sess, "ok")
            if d is not None:
                return d
        kind = rng.choice(["aspirate", "dispense", "dispense"])
        return g.gen_addremove(sess, kind, intent="ok")


def _bad_form(self, sess):
    from ..sim.geom import enc
    rng = self.rng
    li = rng.randrange(len(self.world["labware"]))
    geo = self.gen.geos[li]
    ids = geo.all_ids()
    kind = rng.choice(["aspirate", "dispense"])
    form = rng.choice(["one_well_many_volumes", "two_wells_three_volumes", "three_wells_two_volumes"])
    small = [float(rng.choice([1, 2, 5, 10])) for _ in range(3)]
    if form == "one_well_many_volumes":
        wells, vols = rng.choice([ids[0], [ids[0]]]), small[:rng.choice([2, 3])]
    elif form == "two_wells_three_volumes":
        wells, vols = [rng.choice(ids), rng.choice(ids)], small
    else:
        wells, vols = [rng.choice(ids) for _ in range(3)], small[:2]
    return {"op": kind, "lab": li, "wells": wells, "volumes": enc(vols), "label": None, "comps": None,
            "intent": "reject.invalid:" + form}


Program.bad_form = _bad_form


def list_source(ops):
    def src(i, sess):
        return ops[i] if i < len(ops) else None

    return src


def account(stats, world, res):
    stats.evaluations += 1
    stats.programs += 1
    stats.note_digest(res.digest, res.ok_liquid >= 2 and res.decoded >= 1)
    if res.ended_by_rejection:
        stats.ended_by_rejection += 1
    for op, oc in zip(res.ops, res.outcomes):
        stats.transitions.add(transition_key(world, op, oc, (world["regime"],)))
    stats.probes["records_decoded"] += res.decoded
    for k, v in res.probes.items():
        stats.probes[k] += v
    stats.last_exec = ({"format": 1, "property": PROP, "world": world, "ops": res.ops}, res.digest)
    if len(stats.samples) < 3 and res.ok_liquid >= 3:
        stats.samples.append({"world": world, "ops": res.ops, "outcomes": res.outcomes})


def explore(rng, tier, stats):
    prog = Program(rng, tier)
    res = execute(prog.world, prog.source)
    account(stats, prog.world, res)
    return res.violations


def replay(spec):
    return execute(spec["world"], list_source(spec["ops"]))
