"""World specs: seeded generation (swarm style) and construction of the real robotools objects.

A world spec is plain JSON (floats as hex strings, see geom.enc) and fully determines the labware
set, the worklist knobs and the disk pre-state of one simulated run.
"""
import math
import os

from .geom import Geo, dec, enc, well_id

ROWS_ = "ABCDEFGHIJKLMNOPQRSTUVWXYZ"
LAB_NAMES = ["src", "dst", "plate1", "T", "reservoir", "A", "MTP-96", "x y", "stocks", "dil", "Waste_2", "b",
             "µ-plate", "a.b", "96er", "N" * 32, "first", "plate ", " lead", "tab\tname",
             "Systemliquid",  # EVOware's built-in rack name (robotools.evotools.types.Labwares.SystemLiquid) as a labware name
             "Waste", "Trough 100ml"]
COMPONENTS = ["water", "glucose", "NaCl", "buffer", "x", "dye"]


def snap(x, regime):
    if regime == "quarter":
        return round(x * 4) / 4
    if regime == "centi":
        return round(x * 100) / 100
    if regime == "milli":
        return round(x * 1000) / 1000
    return float(x)


def snap_down(x, regime):
    """largest grid value <= x (x >= 0)."""
    if x <= 0:
        return 0.0
    if regime == "quarter":
        return math.floor(x * 4) / 4
    if regime == "centi":
        v = math.floor(x * 100) / 100
        while v > x:
            v = (round(v * 100) - 1) / 100
        return max(v, 0.0)
    if regime == "milli":
        v = math.floor(x * 1000) / 1000
        while v > x:
            v = (round(v * 1000) - 1) / 1000
        return max(v, 0.0)
    return float(x)


def pick_size(rng, kind, size_class):
    if size_class == "tall" and kind == "plate":
        # more rows than the alphabet has letters (a 1536-well plate has 32)
        return rng.randint(27, 32), rng.randint(1, 3)
    if size_class == "wide":
        # three-digit column numbers (well IDs such as A100)
        return (rng.randint(1, 3), rng.randint(100, 120)) if kind == "plate" else (rng.randint(1, 3), rng.randint(100, 104))
    if kind == "plate":
        if size_class == "small":
            return rng.randint(1, 4), rng.randint(1, 6)
        if size_class == "medium":
            return rng.choice([(8, 12), (4, 6), (6, 8), (8, 3), (2, 12)])
        return rng.choice([(16, 24), (16, 1), (1, 24), (13, 7)])
    if size_class == "small":
        return rng.randint(1, 4), rng.randint(1, 3)
    if size_class == "medium":
        return rng.choice([(8, 1), (8, 2), (6, 3), (4, 4)])
    return rng.choice([(16, 6), (16, 1), (12, 5)])


def gen_labware(rng, kind, name, regime, size_class, idx, opts):
    rows, cols = pick_size(rng, kind, size_class)
    if kind == "plate":
        vmax = rng.choice([50, 200, 300, 1000, 2000, 5000])
    else:
        vmax = rng.choice([300, 10000, 25000, 100000])
    vmax = float(vmax)
    if regime != "quarter" and rng.random() < 0.5:
        # limits that are not binary-exact (100.3, 1234.57, arbitrary floats): "every min/max configuration"
        vmax = snap(vmax * rng.uniform(0.4, 1.3), regime)
    r = rng.random()
    if r < 0.55:
        vmin = 0.0
    elif r < 0.9:
        vmin = snap(rng.choice([0.01, 0.05, 0.1]) * vmax, regime)
    else:
        vmin = snap(rng.uniform(0, 0.5) * vmax, regime)
    if vmin >= vmax:
        vmin = 0.0
    pattern = rng.choice(opts.get("patterns", ["empty", "full", "uniform", "mixed", "mixed", "low"]))

    def one():
        if pattern == "empty":
            return 0.0
        if pattern == "full":
            return snap(rng.uniform(0.5, 1.0) * vmax, regime)
        if pattern == "mixed":
            if rng.random() < 0.3:
                return 0.0
            return snap(rng.uniform(0, 1.0) * vmax, regime)
        if pattern == "low":
            # around / below min_volume, and exactly on it
            if rng.random() < 0.3:
                return vmin
            return snap(rng.uniform(0, 1.5) * max(vmin, 0.02 * vmax), regime)
        return None

    uniform_v = snap(rng.uniform(0.1, 0.9) * vmax, regime)
    spec = {"kind": kind, "name": name, "cols": cols, "min": enc(vmin), "max": enc(vmax),
            "grid": 10 + idx, "site": 1 + idx % 3}
    if kind == "plate":
        spec["rows"] = rows
        ini = [[(uniform_v if pattern == "uniform" else one()) for _ in range(cols)] for _ in range(rows)]
        ini = [[min(v, vmax) for v in row] for row in ini]
        spec["initial"] = enc(ini)
        nm = rng.random()
        if nm < 0.4 or rows > 26:
            spec["names"] = None
        else:
            names = {}
            shared = rng.random() < 0.4
            for rr in range(rows):
                for cc in range(cols):
                    if ini[rr][cc] > 0 and rng.random() < (0.5 if nm < 0.7 else 1.0):
                        wid = well_id(rr, cc)
                        names[wid] = rng.choice(COMPONENTS) if shared else f"{rng.choice(COMPONENTS)}{rr}_{cc}"
                        if rng.random() < 0.05:
                            names[wid] = rng.choice(LAB_NAMES[:12])  # a component called like some labware
                    elif rng.random() < 0.15:
                        # an explicit None entry: "no name given" (legal for filled and for empty wells)
                        names[well_id(rr, cc)] = None
            if names and rows * cols > 1 and rng.random() < 0.08:
                # a well explicitly called like the *default* name of another well ("plate.B01": a replicate of B01)
                wid = rng.choice(sorted(k for k, v in names.items() if v is not None) or sorted(names))
                unnamed = [well_id(rr, cc) for rr in range(rows) for cc in range(cols)
                           if ini[rr][cc] > 0 and names.get(well_id(rr, cc)) is None and well_id(rr, cc) != wid]
                other = rng.choice(unnamed) if unnamed else well_id(rng.randrange(rows), rng.randrange(cols))
                if names.get(wid) is not None:
                    names[wid] = f"{name}.{other}"
            elif names and rng.random() < 0.06:
                # an explicitly given empty name (a blank cell of a layout sheet) is a name, not "no name"
                for wid in rng.sample(sorted(names), min(len(names), rng.choice([1, 2]))):
                    if names[wid] is not None:
                        names[wid] = ""
            spec["names"] = names
    else:
        spec["vrows"] = rows
        ini = [(uniform_v if pattern == "uniform" else one()) for _ in range(cols)]
        ini = [min(v, vmax) for v in ini]
        spec["initial"] = enc(ini)
        if rng.random() < 0.5:
            spec["names"] = None
        else:
            spec["names"] = [
                (rng.choice(COMPONENTS) if (ini[c] > 0 and rng.random() < 0.7) else None) for c in range(cols)
            ]
        if spec["names"] and rng.random() < 0.06:
            c = rng.randrange(cols)
            if spec["names"][c] is not None:
                spec["names"][c] = ""
        if rng.random() < 0.1:
            spec["via_labware"] = True
            spec["names"] = [(f"{rng.choice(COMPONENTS)}_c{c}" if ini[c] > 0 else None) for c in range(cols)]
    # sometimes the user hands the initial volumes over as float32 / integer arrays (only when every value is
    # exactly representable there, so the configuration itself is unchanged)
    import struct
    flat = [v for row in ini for v in (row if isinstance(row, list) else [row])]
    r = rng.random()
    if r < 0.06:
        # an integer-typed array (np.full(shape, 99), np.zeros(..., dtype=int)): whole-number volumes
        def whole(v):
            w = float(math.floor(v))
            return w
        if kind == "plate":
            ini = [[whole(v) for v in row] for row in ini]
        else:
            ini = [whole(v) for v in ini]
        spec["initial"] = enc(ini)
        spec["initial_dtype"] = "int64"
        if spec.get("names") and kind == "plate":
            spec["names"] = {k: v for k, v in spec["names"].items()
                             if v is None or ini[ROWS_.index(k[0])][int(k[1:]) - 1] > 0}
        elif spec.get("names") and kind == "trough":
            spec["names"] = [nm if ini[c] > 0 else None for c, nm in enumerate(spec["names"])]
    elif r < 0.12 and all(struct.unpack("f", struct.pack("f", v))[0] == v for v in flat):
        spec["initial_dtype"] = "float32"
    if kind == "plate":
        # the well-wise initial volumes as a flat (row-major) array / list or a nested list instead of a 2-D array
        r = rng.random()
        spec["initial_form"] = "flat" if r < 0.07 else "flat_list" if r < 0.10 else "nested_list" if r < 0.13 else None
    return spec


def gen_world(rng, opts=None):
    opts = dict(opts or {})
    regime = opts.get("regime") or rng.choice(["quarter", "quarter", "centi", "free"])
    device = opts.get("device") or rng.choice(["evo", "fluent"])
    r = rng.random()
    size_class = opts.get("size_class") or ("small" if r < 0.70 else "medium" if r < 0.94 else "large" if r < 0.985 else "wide")
    n = opts.get("n_labware") or rng.choice([1, 2, 2, 2, 3, 3, 4])
    names = rng.sample(LAB_NAMES, n)
    if opts.get("allow_same_names") and n >= 2 and rng.random() < 0.06:
        names[1] = names[0]  # two distinct labware objects that happen to carry the same name
    if opts.get("unicode_names") and rng.random() < 0.05:
        # labware names outside Latin-1 (the file format's encoding): the records exist in memory, save() must
        # refuse loudly rather than write a file that addresses other racks
        for j, nm in enumerate(rng.sample(["ΔadhE", "plate α", "plate β", "→out"], min(n, rng.choice([1, 1, 2])))):
            names[j] = nm
    labs = []
    for i in range(n):
        kind = "trough" if rng.random() < opts.get("p_trough", 0.4) else "plate"
        if i == 0 and opts.get("need_trough"):
            kind = "trough"
        if i == 1 and opts.get("need_plate"):
            kind = "plate"
        labs.append(gen_labware(rng, kind, names[i], regime, size_class, i, opts))
    if opts.get("tall", True) and rng.random() < 0.02:
        # one plate with more rows than row letters - if the library offers such plates at all (see resolve_tall)
        j = rng.randrange(n)
        labs[j] = gen_labware(rng, "plate", names[j], regime, "tall", j, opts)
        resolve_tall(labs[j])
    if n >= 2 and rng.random() < 0.15:
        # replicate labware: built from the very same initial-volumes array object as another one (a user who
        # fills several plates from one layout array) - the library must not let them share state
        j = rng.randrange(n - 1)
        k = rng.randrange(j + 1, n)
        import copy as _copy
        rep = _copy.deepcopy(labs[j])
        rep["name"], rep["grid"], rep["site"] = labs[k]["name"], labs[k]["grid"], labs[k]["site"]
        rep["replica_of"] = j
        labs[k] = rep
    r = rng.random()
    if r < 0.3:
        mv = 950
    elif r < 0.9 or opts.get("integer_max_volume"):
        mv = rng.choice([20, 50, 100, 200, 1000, 5000, 7])
    else:
        mv = rng.choice([12.5, 99.9, 0.75, 250.25, 33.3])
    use_default = mv == 950 and rng.random() < 0.5
    mv_type = None
    if not use_default and rng.random() < 0.12:
        mv_type = "npint" if isinstance(mv, int) else "npfloat"
    wl = {
        "max_volume": enc(mv),
        "max_volume_default": use_default,  # the user script does not pass max_volume at all (library default 950)
        "max_volume_type": mv_type,  # numpy.int64 / numpy.float64 instead of a builtin number
        "auto_split": opts.get("auto_split", rng.random() < 0.75),
        "diti_mode": rng.random() < 0.25,
        "path_kind": rng.choice(["str", "Path"]),
        "file": rng.choice(["out.gwl", "OUT.GWL", "my worklist.gwl", "a.b.gwl"]),
    }
    disk = {"prestate": rng.choice(["none", "none", "empty", "shorter", "longer", "equalish", "torn"])}
    # the boolean options as a script computes them: numpy.bool_ (`volumes.max() > 950`) or 0/1 instead of a builtin bool
    r = rng.random()
    wl["flag_type"] = "npbool" if r < 0.08 else "int" if r < 0.12 else None
    # how the script constructs the worklist: all arguments positional instead of by keyword; through the
    # deprecated alias `robotools.Worklist` (an EvoWorklist) instead of the recommended class
    wl["ctor_positional"] = rng.random() < 0.12
    wl["path_by_keyword"] = rng.random() < 0.2  # Worklist(filepath=...) instead of Worklist(path)
    wl["debug_logging"] = rng.random() < 0.1  # the script runs with logging at DEBUG level for the library's loggers
    wl["legacy_class"] = rng.random() < 0.08
    return {"device": device, "regime": regime, "worklist": wl, "disk": disk, "labware": labs}


def resolve_tall(spec):
    """A plate with more than 26 rows: the statements define well IDs only up to row Z. The script takes the IDs
    from the library's own `wells` array; if the library does not offer a consistent plate of that size (the
    unchanged tree silently stops at row Z) the script falls back to a 26-row plate. Decided once, when the world is
    made, and recorded in the spec, so a replay never asks again."""
    import warnings

    from .. import rt as rtmod

    ok, ids = False, None
    try:
        rt = rtmod.load()
        with warnings.catch_warnings():
            warnings.simplefilter("ignore")
            lab = build_labware(rt, spec)
        w = lab.wells
        if tuple(w.shape) == (spec["rows"], spec["cols"]) and tuple(lab.volumes.shape) == (spec["rows"], spec["cols"]):
            ids = [[str(w[r, c]) for c in range(spec["cols"])] for r in range(spec["rows"])]
            flat = [x for row in ids for x in row]
            ok = len(set(flat)) == len(flat) and all(x in lab.indices for x in flat)
    except Exception:  # noqa
        ok = False
    if ok:
        spec["ids"] = ids
    else:
        spec["rows"] = 26
        ini = spec["initial"]
        n = 26 * spec["cols"]
        if ini and isinstance(ini[0], list):
            spec["initial"] = ini[:26]
        spec["tall_fallback"] = True
    return spec


# ------------------------------------------------------------------ building the real objects
def build_labware(rt, spec, shared=None, index=None):
    """shared: dict index -> the ndarray handed to an earlier labware (replicas get the same object)."""
    import numpy as np

    shared = shared if shared is not None else {}
    if "replica_of" in spec and spec["replica_of"] in shared:
        arr = shared[spec["replica_of"]]
    else:
        arr = np.array(dec(spec["initial"]), dtype=float)
        dt = spec.get("initial_dtype")
        if dt in ("float32", "int64"):
            arr = arr.astype(np.float32 if dt == "float32" else np.int64)
        form = spec.get("initial_form") if spec["kind"] == "plate" else None
        if form == "flat":
            arr = arr.reshape(-1).copy()
        elif form == "flat_list":
            arr = arr.reshape(-1).tolist()
        elif form == "nested_list":
            arr = arr.tolist()
    if index is not None:
        shared[index] = arr
    if spec["kind"] == "plate":
        # a replica is built from the very same objects as its original: the ndarray and the names dict
        names = spec.get("names")
        if "replica_of" in spec and ("names", spec["replica_of"]) in shared:
            names = shared[("names", spec["replica_of"])]
        if index is not None:
            shared[("names", index)] = names
        return rt.Labware(
            spec["name"], spec["rows"], spec["cols"],
            min_volume=dec(spec["min"]), max_volume=dec(spec["max"]),
            initial_volumes=arr,
            component_names=names,
        )
    if spec.get("via_labware"):
        # the documented low-level way to make a trough: Labware(rows=1, virtual_rows=N) - every filled column
        # carries an explicit name here, so default naming (which differs on this path) does not come into play
        names = {f"A{c + 1:02d}": nm for c, nm in enumerate(spec["names"]) if nm is not None}
        return rt.Labware(
            spec["name"], 1, spec["cols"],
            min_volume=dec(spec["min"]), max_volume=dec(spec["max"]),
            initial_volumes=np.array(dec(spec["initial"]), dtype=float).reshape(1, -1),
            virtual_rows=spec["vrows"], component_names=names,
        )
    return rt.Trough(
        spec["name"], spec["vrows"], spec["cols"],
        min_volume=dec(spec["min"]), max_volume=dec(spec["max"]),
        initial_volumes=arr if "replica_of" in spec or spec.get("initial_as_array") else [float(v) for v in dec(spec["initial"])],
        column_names=spec.get("names"),
    )


def build_worklist(rt, world, scratch=None, device=None):
    device = device or world["device"]
    cls = {"evo": rt.EvoWorklist, "fluent": rt.FluentWorklist, "base": rt.BaseWorklist}[device]
    w = world["worklist"]
    if w.get("legacy_class") and device == "evo" and hasattr(rt, "Worklist"):
        cls = rt.Worklist
    path = None
    if scratch is not None:
        p = os.path.join(scratch, w["file"])
        if w["path_kind"] == "Path":
            import pathlib

            path = pathlib.Path(p)
        else:
            path = p
    auto_split, diti_mode = w["auto_split"], w["diti_mode"]
    if w.get("flag_type") == "npbool":
        import numpy as np
        auto_split, diti_mode = np.bool_(auto_split), np.bool_(diti_mode)
    elif w.get("flag_type") == "int":
        auto_split, diti_mode = int(auto_split), int(diti_mode)
    if w.get("path_by_keyword") and not w.get("ctor_positional"):
        if w.get("max_volume_default"):
            return cls(filepath=path, auto_split=auto_split, diti_mode=diti_mode)
        mv = dec(w["max_volume"])
        if w.get("max_volume_type") in ("npint", "npfloat"):
            import numpy as np
            mv = np.int64(mv) if w["max_volume_type"] == "npint" else np.float64(mv)
        return cls(filepath=path, max_volume=mv, auto_split=auto_split, diti_mode=diti_mode)
    if w.get("max_volume_default"):
        wl = cls(path, auto_split=auto_split, diti_mode=diti_mode)
    else:
        mv = dec(w["max_volume"])
        if w.get("max_volume_type") == "npint":
            import numpy as np
            mv = np.int64(mv)
        elif w.get("max_volume_type") == "npfloat":
            import numpy as np
            mv = np.float64(mv)
        if w.get("ctor_positional"):
            wl = cls(path, mv, auto_split, diti_mode)
        else:
            wl = cls(path, max_volume=mv, auto_split=auto_split, diti_mode=diti_mode)
    return wl


PRESTATE_BYTES = {
    "empty": b"",
    "shorter": b"C;old",
    "equalish": b"C;previous content\r\nW1;\r\n",
    "longer": b"C;previous\r\n" + b"A;old;;;1;;10.00;;;;\r\nD;old;;;2;;10.00;;;;\r\nW1;\r\n" * 400,
    "torn": b"A;src;;;1;;10.",
}


def prepare_disk(world, scratch):
    """Writes the hostile pre-state of the target file; returns the target path (str)."""
    p = os.path.join(scratch, world["worklist"]["file"])
    pre = world["disk"]["prestate"]
    if pre != "none":
        with open(p, "wb") as f:
            f.write(PRESTATE_BYTES[pre])
    return p
