"""The robot: an independent interpreter of Tecan .gwl records and EVO script commands.

Peer model for C01, C03 (and used by C16 diagnostics).  Imports nothing from robotools.
State is exact (fractions.Fraction).  See DESIGN.md section 4.2.
"""
import re
from fractions import Fraction

from .geom import Geo, frac

UNKNOWN = "\x00unknown"


class DecodeError(Exception):
    def __init__(self, msg, side=None):
        super().__init__(msg)
        self.side = side


_NUM = re.compile(r"^[+-]?(\d+(\.\d*)?|\.\d+)([eE][+-]?\d+)?$")
_SCRIPT = re.compile(
    r'^B;(Aspirate|Dispense)\((\d+),"([^"]*)",(.*),(\d+),(\d+),(\d+),"([^"]*)",(\d+),(\d+)\);$'
)


def parse_number(s):
    s = s.strip()
    if not _NUM.match(s):
        raise DecodeError(f"not a number: {s!r}")
    return Fraction(s)


def decode_selection(sel):
    """EVOware well selection string -> (cols, rows, [(row, col) ...] in column-major order)."""
    if len(sel) < 4:
        raise DecodeError("selection too short")
    try:
        cols = int(sel[0:2], 16)
        rows = int(sel[2:4], 16)
    except ValueError:
        raise DecodeError("bad selection header")
    n = rows * cols
    body = sel[4:]
    if len(body) != (n + 6) // 7:
        raise DecodeError("selection length")
    wells = []
    for i, ch in enumerate(body):
        bits = ord(ch) - 48
        if bits < 0 or bits > 127:
            raise DecodeError("selection char")
        for b in range(7):
            if bits & (1 << b):
                k = i * 7 + b
                if k >= n:
                    raise DecodeError("padding bit set")
                wells.append((k % rows, k // rows))
    return cols, rows, wells


class RLab:
    def __init__(self, spec):
        self.geo = Geo(spec)
        self.vmin = frac(self.geo.vmin)
        self.vmax = frac(self.geo.vmax)
        self.vol = {w: frac(v) for w, v in self.geo.initial().items()}
        names = self.geo.initial_names()
        self.comp = {}
        self.taint = set()
        for w in self.vol:
            if self.vol[w] > 0:
                nm = names.get(w)
                # statement silent on the name (1 x N plate): a private placeholder, resolved by the bench
                self.comp[w] = {nm if nm is not None else f"\x00silent:{self.geo.name}:{w}": Fraction(1)}
            else:
                self.comp[w] = {}
        # has the well ever held liquid with a named component? (a well that never did holds, as far as the
        # digital twin can know, only liquid of unknown origin - and the twin's fractions say exactly that)
        self.ever_known = {w: self.vol[w] > 0 for w in self.vol}
        self.nround = {w: 0 for w in self.vol}
        self.removed_from = set()
        self.added_to = set()


class Robot:
    """Executes records; collects limit excursions in `self.excursions`."""

    def __init__(self, device, labware_specs, per_record_slack=Fraction(0), eps=Fraction(0), track_comp=True):
        self.device = device
        self.track_comp = track_comp
        self.labs = {}
        self.by_site = {}
        for s in labware_specs:
            lab = RLab(s)
            if s["name"] in self.labs:
                raise ValueError("duplicate labware name")
            self.labs[s["name"]] = lab
            self.by_site[(s["grid"], s["site"] - 1)] = s["name"]
        self.slack = per_record_slack
        self.eps = eps
        self.tip = None  # (volume, composition dict, tainted) loaded by the last A
        self.excursions = []  # (kind, labware, well, value, limit, record_index)
        self.ignored = 0
        self.decode_errors = 0
        self.n_exec = 0
        self.rec_index = -1
        self.last_was_break_or_start = True
        self.s_misplaced = 0

    # ------------------------------------------------------------ elementary moves
    def _tol(self, lab, w):
        return self.slack * lab.nround[w] + self.eps * max(1, abs(lab.vmax))

    def _remove(self, lab, w, v, rounded):
        if rounded:
            lab.nround[w] += 1
        lab.vol[w] -= v
        if v > 0:
            lab.removed_from.add(w)
            if lab.vol[w] < lab.vmin - self._tol(lab, w):
                self.excursions.append(("below_min", lab.geo.name, w, lab.vol[w], lab.vmin, self.rec_index))

    def _add(self, lab, w, v, comp, tainted, rounded):
        if rounded:
            lab.nround[w] += 1
        old = lab.vol[w]
        new = old + v
        if v > 0:
            lab.added_to.add(w)
        if v > 0 and self.track_comp:
            if comp is None:
                # liquid the twin was told nothing about: the twin leaves the well's fractions as they are. That is
                # still the truth if the well has never held a named component (all fractions are and stay 0: its
                # content is, correctly, entirely of unknown origin); otherwise the twin is from now on knowingly
                # out of step with the well (tainted)
                tainted = tainted or lab.ever_known[w] or (w in lab.taint)
                comp = {}
            if comp:
                lab.ever_known[w] = True
            mixed = {}
            if old > 0:
                for k, f in lab.comp[w].items():
                    mixed[k] = f * old / new
                for k, f in comp.items():
                    mixed[k] = mixed.get(k, 0) + f * v / new
            else:
                # an empty well (or one driven negative by an excursion) takes the incoming composition
                # and forgets whatever was unknown about its former content
                mixed = dict(comp)
                lab.taint.discard(w)
            lab.comp[w] = {k: f for k, f in mixed.items() if f != 0}
            if tainted:
                lab.taint.add(w)
        lab.vol[w] = new
        if v > 0 and new > lab.vmax + self._tol(lab, w):
            self.excursions.append(("above_max", lab.geo.name, w, new, lab.vmax, self.rec_index))

    # ------------------------------------------------------------ record execution
    def execute(self, record, prov=None):
        """Executes one record. Returns the list of effects [(labware, real well, signed volume)].

        prov: None or a dict describing which operation emitted the record:
          {"op": "transfer"}                      D delivers the tip content
          {"op": "dispense", "comp": {...}|None}   D delivers that composition (None = unknown)
        Raises DecodeError; the caller decides what a decode error means.
        """
        self.rec_index += 1
        if not isinstance(record, str) or not record:
            raise DecodeError("empty record")
        was_start = self.last_was_break_or_start
        self.last_was_break_or_start = False
        if record.startswith("B;Aspirate(") or record.startswith("B;Dispense("):
            return self._script(record, prov)
        if record.startswith("B;Wash("):
            return []
        head = record.split(";", 1)[0]
        if head == "A" or head == "D":
            return self._ad(record, prov)
        if head == "R":
            return self._reagent(record)
        if head == "B":
            if record != "B;":
                raise DecodeError("malformed break")
            self.last_was_break_or_start = True
            return []
        if head in ("W", "W1", "W2", "W3", "W4", "WD", "F"):
            if record != head + ";":
                raise DecodeError("malformed wash/flush")
            return []
        if head == "C":
            return []
        if head == "S":
            if not was_start:
                self.s_misplaced += 1
            return []
        raise DecodeError(f"unknown record type {head!r}")

    def _lab(self, label):
        if label not in self.labs:
            self.ignored += 1
            return None
        return self.labs[label]

    def _ad(self, record, prov):
        f = record.split(";")
        if len(f) != 11:
            raise DecodeError(f"A/D record with {len(f)} fields")
        lab = self._lab(f[1])
        vol = parse_number(f[6])
        if vol < 0:
            raise DecodeError("negative volume")
        if lab is None:
            if f[0] == "A":
                self.tip = (vol, None, True)
            return []
        try:
            pos = int(f[4])
            w = lab.geo.from_position(self.device, pos)
        except (ValueError, KeyError):
            raise DecodeError(f"position {f[4]!r} does not exist on {f[1]!r} ({self.device})")
        self.n_exec += 1
        if f[0] == "A":
            self.tip = (vol, dict(lab.comp[w]), w in lab.taint)
            self._remove(lab, w, vol, True)
            return [(f[1], w, -vol)]
        comp = None
        tainted = True
        op = (prov or {}).get("op")
        if op == "transfer":
            if self.tip is None or self.tip[0] != vol:
                raise DecodeError("D of a transfer does not match the preceding A")
            comp, tainted = self.tip[1], self.tip[2]
        elif op == "dispense":
            comp = prov.get("comp")
            tainted = False  # for comp None, _add decides whether the twin can still be right about the well
        self._add(lab, w, vol, comp, tainted, True)
        return [(f[1], w, vol)]

    def _reagent(self, record):
        f = record.split(";")
        if len(f) < 16:
            raise DecodeError(f"R record with {len(f)} fields")
        src = self._lab(f[1])
        dst = self._lab(f[6])
        try:
            ss, se, ds, de = int(f[4]), int(f[5]), int(f[9]), int(f[10])
            excl = [int(x) for x in f[16:]]
            int(f[13]), int(f[14])
        except ValueError:
            raise DecodeError("non-integer field in R record")
        vol = parse_number(f[11])
        if f[15] not in ("0", "1"):
            raise DecodeError("direction")
        if src is None or dst is None:
            return []
        if se < ss or de < ds:
            raise DecodeError("empty range")
        try:
            srcw = {src.geo.from_position(self.device, p) for p in range(ss, se + 1)}
        except KeyError:
            raise DecodeError(f"source range {ss}..{se} does not exist on {f[1]!r} ({self.device})", "source")
        if len(srcw) != 1:
            raise DecodeError(f"source range {ss}..{se} spans several real wells of {f[1]!r} ({self.device})", "source")
        (sw,) = srcw
        for e in excl:
            if not ds <= e <= de:
                raise DecodeError("excluded well outside range")
        try:
            dws = [dst.geo.from_position(self.device, p) for p in range(ds, de + 1) if p not in set(excl)]
        except KeyError:
            raise DecodeError(f"destination range {ds}..{de} does not exist on {f[6]!r} ({self.device})", "destination")
        self.n_exec += 1
        comp = dict(src.comp[sw])
        tainted = sw in src.taint
        effects = []
        self._remove(src, sw, vol * len(dws), False)
        effects.append((f[1], sw, -vol * len(dws)))
        for w in dws:
            self._add(dst, w, vol, comp, tainted, False)
            effects.append((f[6], w, vol))
        return effects

    def parse_script(self, record):
        m = _SCRIPT.match(record)
        if not m:
            raise DecodeError("malformed script command")
        kind, mask, lc, mid, grid, site, spacing, sel, _z, arm = m.groups()
        slots = mid.split(",")
        if len(slots) != 12:
            raise DecodeError("volume slots")
        mask = int(mask)
        if not 0 < mask < 256:
            raise DecodeError("tip mask")
        tips = [i for i in range(8) if mask & (1 << i)]
        vols = []
        for i in range(12):
            s = slots[i]
            if s.startswith('"') and s.endswith('"') and len(s) >= 2:
                s = s[1:-1]
            v = parse_number(s)
            vols.append(v)
        return kind, tips, vols, lc, int(grid), int(site), sel, int(arm)

    def _script(self, record, prov):
        kind, tips, vols, lc, grid, site, sel, arm = self.parse_script(record)
        name = self.by_site.get((grid, site))
        if name is None:
            self.ignored += 1
            return []
        lab = self.labs[name]
        cols, rows, wells = decode_selection(sel)
        if cols != lab.geo.cols or rows != lab.geo.idrows:
            raise DecodeError("selection geometry does not match labware")
        if len({c for _, c in wells}) > 1:
            raise DecodeError("wells from several columns")
        if len(wells) != len(tips):
            raise DecodeError("tips and wells do not pair up")
        for i in range(8):
            if i not in tips and vols[i] != 0:
                raise DecodeError("volume for unselected tip")
        self.n_exec += 1
        effects = []
        for j, (tip, (r, c)) in enumerate(zip(tips, wells)):
            w = (0, c) if lab.geo.trough else (r, c)
            v = vols[tip]
            if kind == "Aspirate":
                self._remove(lab, w, v, True)
                effects.append((name, w, -v))
            else:
                self._add(lab, w, v, None, True, True)
                effects.append((name, w, v))
        return effects

    # ------------------------------------------------------------ observation
    def volumes(self, name):
        return dict(self.labs[name].vol)

    def fractions(self, name, w):
        return dict(self.labs[name].comp[w])
