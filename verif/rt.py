"""Loads the system under test (robotools) from the working tree named by VERIF_REPO.

Everything in /verif that needs real robotools code goes through `load()`, exactly once per
process.  The model side (ledger, robot, geometry) never imports this module.
"""
import logging
import os
import sys
import warnings

REPO = os.path.realpath(os.environ.get("VERIF_REPO", "/repo"))
PKG_PREFIX = os.path.join(REPO, "robotools") + os.sep

_rt = None


class HarnessError(Exception):
    """A fault of the verification machinery itself (never a VIOLATION, never a pass)."""


def load():
    global _rt
    if _rt is not None:
        return _rt
    sys.dont_write_bytecode = True
    if not sys.path or sys.path[0] != REPO:
        sys.path.insert(0, REPO)
    # Library warnings (deprecations, numpy 0/0) must never abort or pollute a run.
    warnings.simplefilter("ignore")
    logging.getLogger("robotools").setLevel(logging.CRITICAL)
    import robotools  # noqa

    f = os.path.realpath(robotools.__file__)
    if not f.startswith(PKG_PREFIX):
        raise HarnessError(f"robotools imported from {f}, expected under {PKG_PREFIX}")
    _rt = robotools
    return robotools
