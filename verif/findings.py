"""Known-findings file: read-only at run time.

An entry with status "known" downgrades a violation to a KNOWN-FINDING line only if its matcher
accepts the violation both before and after minimisation.  "fixed" entries suppress nothing.
"""
import json
import os

from .sim.geom import flatten_f

PATH = os.path.join(os.path.dirname(os.path.dirname(os.path.abspath(__file__))), "known_findings.json")


def load():
    if not os.path.exists(PATH):
        return []
    with open(PATH) as f:
        return json.load(f).get("findings", [])


# ----------------------------------------------------------------- named predicates over a violation
def _culprit_op(v):
    spec = v["spec"]
    c = v["violation"]["culprit"]
    ops = spec.get("ops") or []
    if isinstance(c, int) and 0 <= c < len(ops):
        return ops[c]
    return None


def pred_evo_wells_not_ascending(v):
    op = _culprit_op(v)
    if not op or op.get("op") not in ("evo_aspirate", "evo_dispense"):
        return False
    ids = flatten_f(op.get("wells"))
    return any(a >= b for a, b in zip(ids, ids[1:]))


def pred_label_is_selector(v):
    op = _culprit_op(v)
    return bool(op) and op.get("label") in ("first", "last")


def pred_fluent_distribute_source_range(v):
    """Fluent, culprit is a distribute from a trough with >= 2 virtual rows, and it is the *source* side
    of the R record that cannot be decoded."""
    spec = v["spec"]
    op = _culprit_op(v)
    if not op or op.get("op") != "distribute" or spec["world"].get("device") != "fluent":
        return False
    if (v["violation"].get("facts") or {}).get("side") != "source":
        return False
    labs = spec["world"]["labware"]
    si = op.get("src")
    if not isinstance(si, int) or not 0 <= si < len(labs):
        return False
    src = labs[si]
    if not (src.get("kind") == "trough" and src.get("vrows", 1) >= 2):
        return False
    # exactly the documented defect: the source range is the EVO numbering of that column
    rec = (v["violation"].get("facts") or {}).get("record") or ""
    f = rec.split(";")
    col = op.get("col")
    if len(f) < 16 or f[0] != "R" or not isinstance(col, int):
        return False
    vr = src["vrows"]
    return f[4] == str(1 + vr * col) and f[5] == str(vr * col + vr)


PREDICATES = {
    "fluent_distribute_source_range": pred_fluent_distribute_source_range,
    "evo_wells_not_ascending": pred_evo_wells_not_ascending,
    "label_is_selector": pred_label_is_selector,
}


def match(entry, v):
    """v = {"spec": ..., "violation": {...}} (the replay-file shape)."""
    if entry.get("status") != "known":
        return False
    viol = v["violation"]
    if entry.get("property") != v["spec"].get("property"):
        return False
    if "clauses" in entry and viol["clause"] not in entry["clauses"]:
        return False
    if "culprit_kinds" in entry and viol["culprit_kind"] not in entry["culprit_kinds"]:
        return False
    p = entry.get("predicate")
    if p:
        fn = PREDICATES.get(p)
        if fn is None or not fn(v):
            return False
    return True


def find(entries, v):
    for e in entries:
        if match(e, v):
            return e
    return None
