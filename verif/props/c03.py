"""C03 - a worklist never contains a rejected or oversized pipetting step, even on abort.

Workload: `with Worklist(path)` around N successful operations and one terminal fault
(a rejection aimed at a sub-step, or an injected interrupt at a robotools source line).
Oracle: an independent robot replays the record list after every operation and, after the fault,
the file that the real `__exit__` wrote.  See DESIGN.md section 5 / C03.
"""
from fractions import Fraction

from ..sim import ops as opsmod
from ..sim.bench import Session, ShapeChanged, digest_events, raised_in_sut
from ..sim.gen import Gen
from ..sim.geom import dec, frac
from ..sim.robot import DecodeError, Robot, parse_number
from ..sim.world import gen_world, prepare_disk
from .common import ExecBase, Scratch, Violation, short_hash, transition_key

PROP = "C03"
LEVEL = "fault_enumeration"
CHUNK = {"quick": 10, "thorough": 3}  # a thorough program enumerates up to 3000 crash points: keep chunks small

RULE = ("A case is one execution: a seeded world + a program of successful operations + one terminal fault "
        "(an aimed rejection, or an interrupt injected at one robotools source line of the terminal operation); "
        "thorough tier enumerates every line of the terminal operation (every k-th line from a seeded offset when enumerating all would re-execute more than 3e6 line events for one program). Distinct = distinct event-log digest "
        "(sha256 over per-step (op kind, outcome class, #records, all volumes as hex, history lengths) plus the "
        "bytes of the written file); non-trivial = at least one liquid-moving record was emitted before the fault "
        "or by the faulted operation AND the fault fired.")


def slack(world):
    r = world["regime"]
    if r == "quarter":
        return Fraction(0), Fraction(1, 10 ** 9)
    if r == "centi":
        return Fraction(1, 10 ** 9), Fraction(1, 10 ** 9)
    return Fraction(5, 1000) + Fraction(1, 10 ** 9), Fraction(1, 10 ** 9)


def make_robot(world, device=None):
    s, e = slack(world)
    return Robot(device or world["device"], world["labware"], per_record_slack=s, eps=e, track_comp=False)


def check_step_size(record, max_volume, robot):
    """-> None or detail string. Every A/D volume, per-tip script volume, R volume and multi_disp x volume
    must fit the worklist max_volume (+0.005 printed rounding, 1e-9 relative)."""
    lim = frac(max_volume) * (1 + Fraction(1, 10 ** 9)) + Fraction(5, 1000)
    try:
        if record.startswith("A;") or record.startswith("D;"):
            f = record.split(";")
            if len(f) == 11:
                v = parse_number(f[6])
                if v > lim:
                    return f"record {record!r} has step volume {float(v)} > max_volume {max_volume}"
        elif record.startswith("R;"):
            f = record.split(";")
            if len(f) >= 16:
                v = parse_number(f[11])
                md = int(f[14])
                if v > lim:
                    return f"R record volume {float(v)} > max_volume {max_volume}"
                if md >= 1 and v * md > lim:
                    return f"R record multi_disp {md} x {float(v)} > max_volume {max_volume}"
        elif record.startswith("B;Aspirate(") or record.startswith("B;Dispense("):
            _, tips, vols, *_ = robot.parse_script(record)
            for t in tips:
                if vols[t] > lim:
                    return f"script command tip {t + 1} volume {float(vols[t])} > max_volume {max_volume}"
    except (DecodeError, ValueError):
        return None
    return None


class Exec(ExecBase):
    """Result of one execution."""

    def __init__(self):
        super().__init__()
        self.terminal_lines = 0
        self.failed = False
        self.exc_type = None
        self.liquid_records = 0
        self.fault_fired = False
        self.file_bytes = None
        self.fired_at = None
        self.decode_errors = 0
        self.desync = False
        self.root = None


def execute(world, opsource, fault, want_lines=False, trace_all=False):
    """Runs one program inside a real `with` block on a real scratch directory.

    opsource(i, session) -> (op, is_terminal) or None.
    fault: None | {"kind": "interrupt.line", "k": int, "exc": "interrupt"|"error"} applied to the terminal op.
    """
    res = Exec()
    max_volume = dec(world["worklist"]["max_volume"])

    def viol(clause, idx, op, outcome, detail, facts=None):
        spec = {"format": 1, "property": PROP, "world": world, "ops": res.ops, "fault": fault}
        res.add(Violation(PROP, clause, spec, idx, op["op"] if op else None, outcome, detail, facts=facts or {}))

    with Scratch() as scratch:
        target = prepare_disk(world, scratch)
        sess = Session(world, scratch=scratch)
        robot = make_robot(world)
        seen = 0
        raised = None
        last_op = None
        last_idx = -1
        op_of_record = []  # record index -> (op index, op)
        limit_of_record = []  # record index -> the worklist's max_volume when the record was emitted
        try:
            with sess.wl:
                i = 0
                view = RobotView(robot, sess)
                while True:
                    nxt = opsource(i, view)
                    if nxt is None:
                        break
                    op, terminal = nxt
                    res.ops.append(op)
                    last_op, last_idx = op, i
                    pre_vols = sess.all_volumes() if op["op"] == "transfer" else None
                    inj = None
                    if terminal and fault and fault.get("kind") == "interrupt.line":
                        inj = (fault["k"], fault.get("exc", "interrupt"))
                    out = sess.step(op, inject=inj, trace=((terminal and want_lines) or trace_all))
                    if terminal:
                        res.terminal_lines = out.lines
                        res.fault_fired = out.injected or not out.ok
                        res.fired_at = out.fired_at
                    # ---- oracle after every operation: the records accumulated so far
                    recs = sess.records()
                    if op["op"] == "set_wl_max" and out.ok:
                        max_volume = dec(op["value"])  # "the worklist's max_volume" is the attribute's current value
                    for j in range(seen, len(recs)):
                        op_of_record.append((i, op))
                        limit_of_record.append(max_volume)
                        d = check_step_size(recs[j], max_volume, robot)
                        if d:
                            viol("C03.step_size", i, op, out.exc_type, d, {"record": recs[j]})
                        nex = len(robot.excursions)
                        try:
                            eff = robot.execute(recs[j])
                            if eff:
                                res.liquid_records += 1
                        except DecodeError:
                            # C03 speaks about limits, not decoding (that is C01): an undecodable record is
                            # counted, and the replay clauses stop because the robot state is unknown from here
                            robot.decode_errors += 1
                            res.desync = True
                        for ex in ([] if res.desync else robot.excursions[nex:]):
                            ci, cop = (res.root if res.root is not None else (i, op))
                            viol(f"C03.replay.{ex[0]}", ci, cop, out.exc_type,
                                 f"record {j} {recs[j]!r} takes {ex[1]}{ex[2]} to {float(ex[3])} "
                                 f"(limit {float(ex[4])})",
                                 {"record": recs[j], "record_kind": recs[j].split(";")[0][:1] + (
                                     "script" if recs[j].startswith("B;A") or recs[j].startswith("B;D") else ""),
                                  "op": op})
                    seen = len(recs)
                    # ---- attribution only: the first *successful* operation after which robot and twin disagree
                    if out.ok and res.root is None and not res.desync and diverged(robot, sess):
                        res.root = (i, op)
                    # ---- auto_split off: an oversized transfer step must be refused with InvalidOperationError
                    if op["op"] == "transfer" and not world["worklist"]["auto_split"] and not out.injected:
                        d = judge_oversize(world, op, sess, out, pre_vols, max_volume)
                        if d:
                            viol("C03.auto_split_off", i, op, out.exc_type, d)
                    if not out.ok:
                        res.failed = True
                        res.exc_type = out.exc_type
                        raised = out.exc
                        raise out.exc
                    i += 1
        except BaseException as e:  # noqa
            if isinstance(e, (SystemExit, GeneratorExit)):
                raise
            if raised is None or e is not raised:
                # an exception that did not come from an operation: save()/__exit__ or an observation of the
                # system under test raised (behaviour of the code under test), or the harness is at fault
                if isinstance(e, ShapeChanged) or (isinstance(e, Exception) and raised_in_sut(e)):
                    viol("C03.observe", last_idx, last_op, res.exc_type,
                         f"leaving the with block or observing the worklist/labware raised {type(e).__name__} inside robotools")
                else:
                    raise
        else:
            if res.failed:
                viol("C03.propagates", last_idx, last_op, res.exc_type,
                     "the exception raised by the operation was swallowed by the with block")
        # ---- the durable state: exactly what was written when the with block was left
        final_recs = sess.records()
        try:
            with open(target, "rb") as f:
                data = f.read()
        except FileNotFoundError:
            data = None
        res.file_bytes = data
        if data is None:
            viol("C03.file_missing", last_idx, last_op, res.exc_type, "no file was written on leaving the with block")
        else:
            text = data.decode("latin-1")
            lines = text.split("\r\n") if text != "" else []
            if lines != final_recs:
                # "the records accumulated so far (exactly what is written when the with block is left)": the
                # file that the real __exit__ wrote is replayed below - it has to be those records
                k = next((j for j, (a, b) in enumerate(zip(lines, final_recs)) if a != b), min(len(lines), len(final_recs)))
                viol("C03.file", last_idx, last_op, res.exc_type,
                     f"the file written on leaving the with block holds {len(lines)} lines, the worklist {len(final_recs)} records; "
                     f"first difference at line {k}: {lines[k][:60]!r} vs {final_recs[k][:60]!r}" if k < min(len(lines), len(final_recs))
                     else f"the file written on leaving the with block holds {len(lines)} lines, the worklist {len(final_recs)} records")
            robot2 = make_robot(world)
            for j, rec in enumerate(lines):
                oi, oop = op_of_record[j] if j < len(op_of_record) else (last_idx, last_op)
                d = check_step_size(rec, limit_of_record[j] if j < len(limit_of_record) else max_volume, robot2)
                if d:
                    viol("C03.step_size", oi, oop, res.exc_type, "file: " + d, {"record": rec})
                nex = len(robot2.excursions)
                try:
                    robot2.execute(rec)
                except DecodeError:
                    robot2.decode_errors += 1
                    break
                if res.root is not None:
                    oi, oop = res.root
                for ex in robot2.excursions[nex:]:
                    viol(f"C03.replay.{ex[0]}", oi, oop, res.exc_type,
                         f"file line {j} {rec!r} takes {ex[1]}{ex[2]} to {float(ex[3])} (limit {float(ex[4])})",
                         {"record": rec, "op": oop})
            res.decode_errors = robot2.decode_errors
        res.total_lines = sess.total_lines
        res.events = sess.events + [("file", short_hash(data))]
        res.digest = digest_events(res.events)
        for v in res.violations:
            v.digest = res.digest
    return res


class RobotView:
    """What the generator aims at: the volumes the *records* have produced (the robot's wells), not the twin's.
    On a correct library both agree up to printed rounding; if the twin has been corrupted (NaN, a lost
    booking) the aimed rejections still go for what is physically in the wells."""

    def __init__(self, robot, sess):
        self.robot = robot
        self.sess = sess
        self.geos = sess.geos

    def volumes(self, i):
        lab = self.robot.labs[self.sess.geos[i].name]
        tv = self.sess.volumes(i)
        out = {}
        for w, v in lab.vol.items():
            # fall back to the twin for wells the robot lost track of (undecodable records)
            out[w] = float(v) if not self.robot_lost else tv[w]
        return out

    @property
    def robot_lost(self):
        return self.robot.decode_errors > 0


def diverged(robot, sess):
    """robot volumes != twin volumes beyond the per-record rounding slack (attribution only)."""
    for i, g in enumerate(sess.geos):
        lab = robot.labs[g.name]
        tv = sess.volumes(i)
        for w, v in lab.vol.items():
            t = tv[w]
            if t != t or abs(v - frac(t)) > robot._tol(lab, w) + Fraction(1, 10 ** 6):
                return True
    return False


def judge_oversize(world, op, sess, out, pre_vols, max_volume):
    """auto_split off: a transfer that requests a step > max_volume must not return normally, and when
    no volume limit can be the reason it must be InvalidOperationError."""
    try:
        pl = opsmod.plan(op, sess.geos)
    except opsmod.PlanInvalid:
        return None
    mv = frac(max_volume)
    over = [t for t in pl["triples"] if frac(t[2]) > mv]
    if not over:
        return None
    if any(t[2] > 7158278 for t in pl["triples"]):
        return None
    if out.ok:
        return f"transfer with a step of {over[0][2]} > max_volume returned normally with auto_split=False"
    # class is judged only if no volume limit can be the cause (budgeted separately per well)
    net = opsmod.net_per_well(pl)
    for (li, w), (a, r) in net.items():
        g = sess.geos[li]
        pre = frac(pre_vols[li][w])
        if pre + a > frac(g.vmax) or (r > 0 and pre - r < frac(g.vmin)):
            return None
    kw = op.get("kw") or {}
    if op.get("label") and ";" in op["label"]:
        return None
    if op.get("wash", 1) not in (1, 2, 3, 4, "flush", "reuse") or op.get("part", "auto") not in ("auto", "source", "destination"):
        return None
    if any(k in kw for k in ("tip", "liquid_class", "rack_id", "rack_type", "tube_id")) and op.get("intent", "").startswith("reject.invalid"):
        return None
    if out.exc_type != "InvalidOperationError":
        return f"oversized step with auto_split=False raised {out.exc_type}, not InvalidOperationError"
    return None


# ----------------------------------------------------------------------------- generation
FAULT_KINDS = ["reject.underflow", "reject.overflow", "reject.oversize", "reject.invalid",
               "interrupt.line", "interrupt.line", "interrupt.line", "interrupt.save"]


class Program:
    """Online generator of one C03 program (prefix of successful operations + terminal operation)."""

    def __init__(self, rng, tier):
        self.rng = rng
        opts = {}
        r = rng.random()
        if r < 0.5:
            opts["patterns"] = ["full", "uniform", "mixed"]
        self.world = gen_world(rng, opts)
        self.gen = Gen(rng, self.world)
        r = rng.random()
        self.n_prefix = rng.randint(0, 3) if r < 0.6 else rng.randint(2, 8) if r < 0.92 else rng.randint(6, 12)
        # quick tier: an interrupted program costs ten re-executions, a rejected one costs one - two thirds of the
        # programs end in an aimed rejection; the thorough tier (which enumerates every line) keeps the even mix
        self.fault_kind = rng.choice(FAULT_KINDS if tier == "thorough" else FAULT_KINDS[:4] * 2 + FAULT_KINDS[4:6] + FAULT_KINDS[7:] * 2)
        self.exc_kind = rng.choice(["interrupt", "interrupt", "error"])

    def liquid_op(self, sess, intent, terminal=False):
        rng = self.rng
        g = self.gen
        evo = self.world["device"] == "evo"
        r = rng.random()
        if r < 0.40 and intent in ("reject.underflow", "reject.overflow") and rng.random() < 0.2:
            # steps that overlap within one column: refused only when booked in the order of the records
            ch = g.gen_chain_transfer(sess, intent)
            if ch is not None:
                return ch
        if r < 0.40:
            return g.gen_transfer(sess, intent if intent in ("ok", "reject.underflow", "reject.overflow", "reject.oversize") else "ok")
        if r < 0.55:
            if intent == "ok" and terminal and rng.random() < 0.25:
                # only as the last operation of a program: a destination named twice is booked twice by the twin
                # but served once by the R record (which is why C01 excludes coinciding positions from its
                # quantifier) - anything pipetted out of that well afterwards would go by a twin that is ahead
                d = g.gen_distribute_dupgap(sess)
                if d is not None:
                    return d
            d = g.gen_distribute(sess, intent)
            if d is not None:
                return d
        if r < 0.75 or not evo:
            kind = rng.choice(["aspirate", "dispense"])
            if intent == "reject.underflow":
                kind = "aspirate"
            elif intent == "reject.overflow":
                kind = "dispense"
            elif intent == "reject.oversize":
                op = g.gen_addremove(sess, kind, intent="ok")
                op["volumes"] = g.wl_max * 1.5 + 0.25
                from ..sim.geom import enc
                op["volumes"] = enc(float(op["volumes"]))
                op["intent"] = "reject.oversize"
                return op
            op = g.gen_addremove(sess, kind, intent=intent)
            if kind == "dispense" and isinstance(op.get("wells"), list) and len(op["wells"]) > 1 and rng.random() < 0.1:
                # one composition for several wells: a form the library refuses (the lengths must pair up)
                from ..sim.gen import dyadic_composition
                from ..sim.geom import enc
                op["comps"] = [enc(dyadic_composition(rng))]
            return op
        kind = rng.choice(["evo_aspirate", "evo_dispense"])
        if intent == "reject.underflow":
            kind = "evo_aspirate"
        elif intent == "reject.overflow":
            kind = "evo_dispense"
        oversize = intent == "reject.oversize"
        if oversize:
            intent = "ok"
        op = g.gen_evo(sess, kind, intent=intent, canonical=rng.random() < 0.85)
        if oversize:
            # one tip's volume above the worklist's max_volume (whether the labware limits allow it or not)
            from ..sim.geom import dec, enc
            v = dec(op["volumes"])
            big = float(g.wl_max * rng.choice([1.5, 1.01, 3]) + 0.25)
            if isinstance(v, list):
                v[rng.randrange(len(v))] = big
            else:
                v = big
            op["volumes"] = enc(v)
            op["intent"] = "reject.oversize"
        if kind == "evo_dispense" and isinstance(op.get("wells"), list) and len(op["wells"]) > 1 and rng.random() < 0.08:
            from ..sim.gen import dyadic_composition
            from ..sim.geom import enc
            op["comps"] = [enc(dyadic_composition(rng))]
        if isinstance(op["volumes"], list) and rng.random() < (0.4 if oversize else 0.05):
            # per-tip volumes as a tuple / ndarray: an argument form the library refuses (ValueError)
            op["vform"] = rng.choice(["tuple", "ndarray"])
        return op

    def source(self, i, sess):
        nxt = self._source(i, sess)
        self.last_op = nxt[0] if nxt is not None else None
        if nxt is not None and nxt[0]["op"] in ("aspirate", "dispense", "transfer", "distribute", "evo_aspirate", "evo_dispense") \
                and not str(nxt[0].get("intent", "")).startswith("reject"):
            self.last_liquid = nxt[0]
        return nxt

    def followup(self, prev, view):
        """an invalid call was let through silently: the script goes for the very wells it named with a volume no
        well can afford (aspirate) resp. hold (dispense) - whatever the let-through call did to the bookkeeping of
        those wells, this step must be refused."""
        from ..sim.geom import enc, flatten_f
        rng, g = self.rng, self.gen
        if prev["op"] == "transfer":
            li, wells = (prev["src"], prev["sw"]) if rng.random() < 0.5 else (prev["dst"], prev["dw"])
        elif prev["op"] in ("aspirate", "dispense", "evo_aspirate", "evo_dispense"):
            li, wells = prev["lab"], prev["wells"]
        elif prev["op"] == "distribute":
            li, wells = prev["dst"], prev["dw"]
        else:
            return None
        geo = g.geos[li]
        try:
            real = [geo.real(w) for w in flatten_f(wells)]
        except KeyError:
            return None
        cur = g.vols(view, li)
        cap = float(int(g.wl_max)) if g.wl_max >= 1 else g.wl_max
        if rng.random() < 0.5:
            v = max(cur[w] for w in real) - geo.vmin + 1.0
            kind = "aspirate"
        else:
            v = geo.vmax - min(cur[w] for w in real) + 1.0
            kind = "dispense"
        if not 0 < v <= cap:
            return None
        return {"op": kind, "lab": li, "wells": wells, "volumes": enc(float(v)), "label": None, "comps": None,
                "intent": "reject." + ("underflow" if kind == "aspirate" else "overflow") + "@followup"}

    def _source(self, i, sess):
        rng = self.rng
        prev, self.pending_invalid = getattr(self, "pending_invalid", None), None
        if prev is not None and sess.sess.events and sess.sess.events[-1][2] == "ok":
            op = self.followup(prev, sess)
            if op is not None:
                return op, True
        last_kind = (getattr(self, "last_op", None) or {}).get("op", "")
        if 0 < i < self.n_prefix and rng.random() < (0.35 if last_kind.startswith("evo_") else 0.10) \
                and sess.sess.events and sess.sess.events[-1][2] == "ok":
            # the script repeats its previous call verbatim (a loop body executed twice); if the repetition does
            # not fit any more it is refused and thereby becomes the terminal fault
            last = getattr(self, "last_op", None)
            if last is not None and last["op"] in ("aspirate", "dispense", "transfer", "distribute", "evo_aspirate", "evo_dispense"):
                import copy
                rep = copy.deepcopy(last)
                rep.pop("inject", None)
                if rng.random() < 0.5 and rep.get("label"):
                    rep["label"] = None  # only the first iteration of the loop is labelled
                self.repeated = rep
                return rep, False
        if i < self.n_prefix:
            r = rng.random()
            if r < 0.04:
                # an invalid call in the middle: on a correct library it raises and thereby becomes the terminal
                # fault; a library that lets it through silently carries on with whatever state it left
                self.pending_invalid = self.gen.gen_invalid(sess)
                return self.pending_invalid, False
            if r < 0.2:
                if rng.random() < 0.12:
                    return {"op": "bulk_comment", "n": rng.choice([999, 1000, 1001, 2049]), "text": "step ", "width": 0}, False
                return self.gen.gen_misc(), False
            if r < 0.24:
                return self.lowlevel(sess), False
            if r < 0.27:
                return self.set_wl_max(), False
            if r < 0.30:
                return self.other_worklist(), False
            if r < 0.34 or (self.fault_kind == "interrupt.save" and i == self.n_prefix - 1):
                return {"op": "save_main"}, False
            return self.liquid_op(sess, "ok"), False
        if i == self.n_prefix:
            fk = self.fault_kind
            last = getattr(self, "repeated", None) or getattr(self, "last_liquid", None)
            if fk in ("reject.underflow", "reject.overflow") and last is not None and \
                    (getattr(self, "repeated", None) is not None or rng.random() < 0.3):
                # the aimed rejection goes for the wells of the last liquid operation: whatever that operation
                # really did to them, a step none of them can afford / hold must be refused
                op = self.followup(last, sess)
                if op is not None:
                    return op, True
            if fk == "interrupt.save":
                # the terminal operation is an explicit save to the worklist's own path, cut short by an interrupt;
                # what counts is the file the real __exit__ then writes
                return {"op": "save_main"}, True
            if fk == "interrupt.line":
                return self.liquid_op(sess, "ok", terminal=True), True
            if fk == "reject.invalid":
                return self.gen.gen_invalid(sess), True
            return self.liquid_op(sess, fk), True
        return None

    def set_wl_max(self):
        """`wl.max_volume = ...` in mid-script (the user mounts other tips): from here on the new value is the
        worklist's max_volume - for the splitter and for the per-step guard alike."""
        from ..sim.geom import enc
        rng, g = self.rng, self.gen
        cur = g.wl_max
        new = rng.choice([cur / 2, cur / 5, cur * 2, 200, 50, 1000, 10])
        new = float(int(new)) if new >= 1 else cur
        if float(new) == float(cur):
            new = float(max(1, int(cur / 2)))
        g.wl_max = float(new)
        return {"op": "set_wl_max", "value": enc(int(new) if rng.random() < 0.7 else float(new))}

    def other_worklist(self):
        """a second worklist object with other settings is created and kept alive next to the first one"""
        from ..sim.geom import enc
        rng, g = self.rng, self.gen
        w = self.world["worklist"]
        mv = rng.choice([g.wl_max * 5, g.wl_max * 20, 5000, 100000, max(1.0, g.wl_max / 4)])
        op = {"op": "other_worklist", "max_volume": enc(int(mv) if mv >= 1 else float(mv)),
              "auto_split": not w["auto_split"] if rng.random() < 0.5 else w["auto_split"],
              "diti_mode": not w["diti_mode"] if rng.random() < 0.5 else w["diti_mode"],
              "device": rng.choice(["evo", "fluent", "base"])}
        if rng.random() < 0.3:
            op["then_max_volume"] = enc(int(rng.choice([10000, 7, 300])))
        return op

    def lowlevel(self, sess):
        rng = self.rng
        from ..sim.geom import enc
        li = rng.randrange(len(self.world["labware"]))
        # (records written through the low-level emitters are not tracked by any labware: they only ever name racks
        # that are not part of the world, so that the robot has nothing to execute for them)
        free = "Systemliquid" if all(l["name"] != "Systemliquid" for l in self.world["labware"]) else "elsewhere"
        rack = rng.choice([self.world["labware"][li]["name"], free, "elsewhere"])
        v = float(rng.choice([0.0, 1.5, 10.0, self.gen.wl_max]))
        if rng.random() < 0.5:
            return {"op": rng.choice(["aspirate_well", "dispense_well"]), "rack": "elsewhere" if rack != free else rack,
                    "pos": rng.randint(1, 96), "volume": enc(v)}
        return {"op": "reagent_distribution", "src_rack": "elsewhere", "ss": 1, "se": 8, "dst_rack": "other", "ds": 1,
                "de": rng.randint(1, 96), "volume": enc(max(v, 1.0)), "kw": {"multi_disp": rng.choice([1, 6, 12, 100])}}


def list_source(ops):
    n = len(ops)

    def src(i, sess):
        if i < n:
            return ops[i], i == n - 1
        return None

    return src


def account(stats, world, res, fault_label, fault=None):
    stats.evaluations += 1
    stats.last_exec = ({"format": 1, "property": PROP, "world": world, "ops": res.ops, "fault": fault}, res.digest)
    nontrivial = res.liquid_records > 0 and res.fault_fired
    stats.note_digest(res.digest, nontrivial)
    if res.fault_fired:
        stats.faults[fault_label] += 1
    if res.file_bytes is not None:
        stats.durable.add(short_hash(res.file_bytes, res.events[-2][4] if len(res.events) >= 2 else None))
    if res.ops:
        stats.transitions.add(transition_key(world, res.ops[-1], res.exc_type or "ok", (fault_label.split(".")[0],)))
    if res.decode_errors:
        stats.probes["records_ignored_undecodable"] += res.decode_errors


def explore(rng, tier, stats):
    """One program and all its fault executions. Returns the list of violations found."""
    prog = Program(rng, tier)
    world = prog.world
    stats.programs += 1
    violations = []
    # pass 1: generation pass (for rejections this *is* the faulted execution)
    res = execute(world, prog.source, None, want_lines=True, trace_all=(tier == "thorough"))
    ops = res.ops
    label = prog.fault_kind if prog.fault_kind not in ("interrupt.line", "interrupt.save") else "none"
    if prog.fault_kind not in ("interrupt.line", "interrupt.save"):
        if res.failed and res.exc_type in ("VolumeUnderflowError", "VolumeOverflowError"):
            label = "reject.underflow" if res.exc_type == "VolumeUnderflowError" else "reject.overflow"
        elif res.failed and res.exc_type == "InvalidOperationError":
            label = "reject.oversize"
        elif res.failed:
            label = "reject.invalid"
        else:
            label = "none"
    account(stats, world, res, label)
    if len(stats.samples) < 3 and res.failed:
        stats.samples.append({"world": world, "ops": ops, "fault": prog.fault_kind, "outcome": res.exc_type})
    violations.extend(res.violations)
    if len(ops) > 1 and res.failed and len(ops) <= prog.n_prefix:
        stats.probes["prefix_op_rejected_unexpectedly"] += 1
    if ops and str(ops[-1].get("intent", "")).endswith("@chain"):
        stats.probes["chain_transfer_" + (res.exc_type or "accepted")] += 1
    if res.failed and ops:
        tk = ops[-1]["op"]
        stats.probes[f"rejected_in_{tk}"] += 1
        if tk == "transfer" and res.liquid_records > 0:
            stats.probes["transfer_rejected_after_emitting"] += 1
    # Interrupts are injected into valid terminal operations *and* into terminal operations that end in a
    # rejection (an emit-then-roll-back pattern is only visible when the abort arrives between the emit and
    # the refusal): the doomed operation is cut short at a line before its own exception.
    doomed = prog.fault_kind not in ("interrupt.line", "interrupt.save") and res.failed and len(ops) == prog.n_prefix + 1
    if ((prog.fault_kind in ("interrupt.line", "interrupt.save") and not res.failed) or doomed) and res.terminal_lines > 0 \
            and not res.violations:
        n = res.terminal_lines
        stats.lines += n
        if tier == "thorough":
            # every crash point re-runs the whole program: bound the work per program deterministically (by the
            # line events of the un-faulted run, never by the clock) so that one monster program cannot eat the batch
            cap = max(50, min(3000, 3_000_000 // max(getattr(res, "total_lines", 0) or 1, 1)))
            if n <= cap:
                ks = list(range(1, n + 1))
                stats.probes["terminal_op_fully_enumerated"] += 1
            else:
                stride = (n + cap - 1) // cap
                off = rng.randrange(stride)
                ks = list(range(1 + off, n + 1, stride))
                stats.probes["terminal_op_strided"] += 1
        else:
            m = min(n, 10 if not doomed else 5)
            ks = sorted(rng.sample(range(1, n + 1), m))
        for k in ks:
            fault = {"kind": "interrupt.line", "k": k, "exc": prog.exc_kind}
            r2 = execute(world, list_source(ops), fault)
            stats.crash_points += 1
            account(stats, world, r2, "interrupt.line" if not doomed else "interrupt.line+doomed", fault)
            if r2.fired_at:
                stats.probes["interrupt_in_" + r2.fired_at[0].replace("/", ".")] += 1
            if r2.violations:
                violations.extend(r2.violations)
                break
        if len(stats.samples) < 3:
            stats.samples.append({"world": world, "ops": ops, "fault": {"kind": "interrupt.line", "k_enumerated": len(ks),
                                                                          "lines_in_terminal_op": n}})
    return violations


def replay(spec):
    """Re-executes a concrete spec. -> Exec"""
    return execute(spec["world"], list_source(spec["ops"]), spec.get("fault"))
