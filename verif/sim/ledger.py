"""The ledger: exact-arithmetic reference model of the labware twin (volumes, composition, taint).

Same interface idea as `Labware`, trivial inside.  Imports nothing from robotools and no numpy.
See DESIGN.md section 4.3.
"""
from fractions import Fraction

from .geom import Geo, frac


class Ledger:
    def __init__(self, labware_specs, exact_grid=False):
        # exact_grid: the run's volumes all live on the quarter grid, so float sums are exact and "exactly on
        # the limit" is certain; elsewhere an intermediate float rounding can tip the library's decision
        self.exact_grid = exact_grid
        self.geos = [Geo(s) for s in labware_specs]
        self.vol = []
        self.comp = []  # per labware: real well -> {component: Fraction fraction}
        self.taint = []  # per labware: set of real wells whose composition is not fully known
        self.silent = []  # per labware: wells whose initial component name the statement does not fix
        for g in self.geos:
            ini = g.initial()
            self.vol.append({w: frac(v) for w, v in ini.items()})
            names = g.initial_names()
            comp = {}
            silent = set()
            for w, v in ini.items():
                if v > 0:
                    nm = names.get(w)
                    if nm is None:
                        silent.add(w)
                        comp[w] = {}
                    else:
                        comp[w] = {nm: Fraction(1)}
                else:
                    comp[w] = {}
            self.comp.append(comp)
            self.taint.append(set())
            self.silent.append(silent)

    # ------------------------------------------------------------------ volumes
    def check_step(self, step, band=Fraction(0)):
        """-> "ok" | "reject" | "ambiguous" for one elementary step against the limits.

        ambiguous: the exact result lies within `band` of the limit without being equal to it, so float
        rounding may legitimately decide either way."""
        kind, li, w, v = step[0], step[1], step[2], frac(step[3])
        g = self.geos[li]
        cur = self.vol[li][w]
        if kind == "rm":
            new = cur - v
            lim = frac(g.vmin)
            over = lim - new  # > 0 means beyond the limit
        else:
            new = cur + v
            lim = frac(g.vmax)
            over = new - lim
        if over == 0 and (band == 0 or (self.exact_grid and cur.denominator <= 4 and v.denominator <= 4)):
            # exactly on the limit, reached by binary-exact arithmetic: accepted without doubt
            return "ok"
        if abs(over) <= band:
            return "ambiguous"
        return "reject" if over > 0 else "ok"

    def apply_step(self, step, src_comp=None):
        kind, li, w, v = step[0], step[1], step[2], frac(step[3])
        if kind == "rm":
            self.vol[li][w] -= v
            return
        comp = step[4]
        old = self.vol[li][w]
        new = old + v
        self.vol[li][w] = new
        if v == 0:
            return
        tainted = False
        if isinstance(comp, tuple) and comp[0] == "from":
            _, sli, sw = comp
            c = dict(self.comp[sli][sw]) if src_comp is None else src_comp
            tainted = sw in self.taint[sli] or sw in self.silent[sli]
            comp = c
        elif comp is None:
            comp = {}
            tainted = True
        else:
            comp = {k: frac(f) for k, f in comp.items()}
            if sum(comp.values()) != 1:
                tainted = True
        mixed = {}
        if old > 0:
            for k, f in self.comp[li][w].items():
                mixed[k] = f * old / new
            for k, f in comp.items():
                mixed[k] = mixed.get(k, 0) + f * v / new
        else:
            mixed = dict(comp)
            # an emptied well forgets its former content, including its taint
            self.taint[li].discard(w)
            self.silent[li].discard(w)
        self.comp[li][w] = {k: f for k, f in mixed.items() if f != 0}
        if tainted:
            self.taint[li].add(w)

    def apply_sequential(self, steps, band=Fraction(0)):
        """Applies steps in order until one is rejected.

        -> ("ok", None) | ("reject", k) | ("ambiguous", k); the prefix before k stays applied."""
        for k, st in enumerate(steps):
            r = self.check_step(st, band)
            if r != "ok":
                return r, k
            self.apply_step(st)
        return "ok", None

    def adopt(self, li, volumes):
        """Narrow resynchronisation: take over reported volumes (dict real well -> float) of one labware."""
        for w, v in volumes.items():
            self.vol[li][w] = frac(v)

    def known(self, li, w):
        return w not in self.taint[li] and w not in self.silent[li]
