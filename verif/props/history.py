"""Shared skeleton for history-type properties (C02, C04, C05, C11): one session, a stream of
operations (generated online or replayed from a concrete list), an oracle object with hooks.
"""
from ..sim.bench import Session, ShapeChanged, digest_events, raised_in_sut
from ..sim.gen import Gen
from .common import ExecBase, Violation, transition_key


class Oracle:
    """Per-property oracle. Subclasses override the hooks; `self.fail(...)` records a violation."""

    PROP = "C00"

    def __init__(self, world, sess, res):
        self.world = world
        self.sess = sess
        self.res = res
        self.stop = False  # set to end the run without further verdicts

    def fail(self, clause, idx, op, outcome, detail, facts=None):
        spec = {"format": 1, "property": self.PROP, "world": self.world, "ops": self.res.ops}
        self.res.add(Violation(self.PROP, clause, spec, idx, op["op"] if op else None, outcome, detail,
                               facts=facts or {}))

    def before(self, i, op):
        pass

    def after(self, i, op, out):
        pass

    def finish(self):
        pass


class HistExec(ExecBase):
    def __init__(self):
        super().__init__()
        self.accepted_liquid = 0
        self.faults_fired = []
        self.outcomes = []
        self.lines = 0
        self.ended_by_rejection = False
        self.unobservable_after_interrupt = False


def run_history(world, opsource, oracle_cls, device=None, max_records=5000):
    """opsource(i, sess) -> op or None."""
    res = HistExec()
    sess = Session(world, device=device)
    orc = oracle_cls(world, sess, res)
    i = 0
    while True:
        op = opsource(i, sess)
        if op is None:
            break
        res.ops.append(op)
        try:
            orc.before(i, op)
            inj = op.get("inject")
            out = sess.step(op, inject=(inj["k"], inj.get("exc", "interrupt")) if inj else None)
            res.lines += out.lines
            res.outcomes.append(out.exc_type if not out.ok else "ok")
            if out.ok and op["op"] in ("add", "remove", "aspirate", "dispense", "transfer", "distribute",
                                       "evo_aspirate", "evo_dispense"):
                res.accepted_liquid += 1
            if not out.ok:
                res.faults_fired.append(classify_fault(op, out))
            if sess.unobservable is not None:
                raise sess.unobservable
            orc.after(i, op, out)
        except ShapeChanged as e:
            if sess.injected_any:
                res.unobservable_after_interrupt = True
                break
            orc.fail(f"{orc.PROP}.shape", i, op, "ok",
                     f"Labware.volumes of labware {e.args[0]} has shape {e.args[1]}, not (real rows, columns)")
            break
        except Exception as e:  # noqa
            if sess.injected_any and (raised_in_sut(e) or e is sess.unobservable or isinstance(e, (AttributeError, TypeError, ValueError, IndexError, KeyError))):
                # An asynchronous abort in the middle of an operation may leave the labware objects it touched
                # in a state that cannot even be observed any more (or whose observations are of another type).
                # None of the properties promises otherwise: the run ends here without a verdict.
                res.unobservable_after_interrupt = True
                break
            if not (raised_in_sut(e) or e is sess.unobservable):
                raise
            orc.fail(f"{orc.PROP}.observe", i, op, "ok",
                     f"observing the labware/worklist after {op['op']} raised {type(e).__name__} inside robotools")
            break
        if orc.stop or len(sess.wl) > max_records:
            break
        i += 1
    try:
        orc.finish()
    except ShapeChanged:
        pass
    except Exception as e:  # noqa
        if sess.injected_any and (raised_in_sut(e) or isinstance(e, (AttributeError, TypeError, ValueError, IndexError, KeyError))):
            res.unobservable_after_interrupt = True
        elif not raised_in_sut(e):
            raise
        else:
            orc.fail(f"{orc.PROP}.observe", len(res.ops) - 1, res.ops[-1] if res.ops else None, "ok",
                     f"observing the labware at the end of the run raised {type(e).__name__} inside robotools")
    res.events = sess.events
    res.digest = digest_events(sess.events)
    for v in res.violations:
        v.digest = res.digest
    return res


def classify_fault(op, out):
    if out.injected:
        return "interrupt.line"
    t = out.exc_type
    if t == "VolumeUnderflowError":
        return "reject.underflow"
    if t == "VolumeOverflowError":
        return "reject.overflow"
    if t == "InvalidOperationError":
        return "reject.oversize"
    return "reject.invalid"


def list_source(ops):
    def src(i, sess):
        return ops[i] if i < len(ops) else None

    return src


def account(stats, world, res, prop, fault_bearing=True):
    stats.evaluations += 1
    stats.programs += 1
    fired = len(res.faults_fired) > 0
    nontrivial = res.accepted_liquid > 0 and (fired or not fault_bearing)
    stats.note_digest(res.digest, nontrivial)
    for f in res.faults_fired:
        stats.faults[f] += 1
    stats.lines += res.lines
    for op, oc in zip(res.ops, res.outcomes):
        stats.transitions.add(transition_key(world, op, oc))
    if res.ended_by_rejection:
        stats.ended_by_rejection += 1
    if res.unobservable_after_interrupt:
        stats.probes["labware_unobservable_after_injected_interrupt"] += 1
    stats.last_exec = ({"format": 1, "property": prop, "world": world, "ops": res.ops}, res.digest)
    if len(stats.samples) < 3 and res.accepted_liquid > 1 and (fired or not fault_bearing):
        stats.samples.append({"world": world, "ops": res.ops, "outcomes": res.outcomes})


def maybe_inject(rng, op, p):
    """With probability p marks the op for a line-level interrupt (k drawn blind; may not fire)."""
    if rng.random() < p:
        r = rng.random()
        k = rng.randint(1, 12) if r < 0.3 else rng.randint(1, 80) if r < 0.8 else rng.randint(1, 600)
        op["inject"] = {"k": k, "exc": rng.choice(["interrupt", "interrupt", "error"])}
    return op
