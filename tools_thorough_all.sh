#!/bin/bash
# thorough tier of every check on the unchanged tree, one after the other (writes evidence/<id>.json)
# usage: tools_thorough_all.sh [seed]
cd $(dirname $(realpath $0))
for p in C03 C17 C01 C02 C04 C05 C11 C16; do
  VERIF_SEED=${1:-0} /venv/bin/python -m verif.check $p --tier thorough > /tmp/thorough-$p.log 2>&1
  echo "$p rc=$? $(grep '^# runs' /tmp/thorough-$p.log | cut -c1-160)"
  grep "VIOLATION\|HARNESS" /tmp/thorough-$p.log | head -3
done
