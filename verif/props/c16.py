"""C16 - EVO and Fluent worklists differ only in trough well numbers.

One program, three replicas (EvoWorklist, FluentWorklist, BaseWorklist), each with its own freshly
built copy of the same world; the same call with the same arguments is issued to each replica, step
by step, faulty operations included.  See DESIGN.md section 5 / C16.
"""
from ..sim import ops as opsmod
from ..sim.bench import Session, ShapeChanged, digest_events, raised_in_sut
from ..sim.gen import Gen
from ..sim.geom import dec, enc
from ..sim.world import gen_world
from .common import ExecBase, Violation, transition_key
from .history import classify_fault

PROP = "C16"
LEVEL = "exploration"
RULE = ("A case is one seeded program over aspirate/dispense/transfer (all wash schemes except None, all partition "
        "modes, split volumes)/distribute/comment/wash/flush/commit/decontaminate/set_diti and the low-level emitters, "
        "about one operation in four aimed to be rejected, executed step by step on three replicas (EVO, Fluent, Base) "
        "that each own a fresh copy of the world; divergence is checked after every step. Distinct = distinct "
        "event-log digest of the three replicas; non-trivial = at least one liquid operation succeeded on both "
        "devices and at least one operation was rejected.")
COMPONENTS = {"real": ["EvoWorklist", "FluentWorklist", "BaseWorklist", "Labware/Trough"],
              "stub": ["user script (seeded generator)"]}
ASSUMPTIONS = ["rejection classes other than volume violations and InvalidOperationError may differ between the copies (assert vs ValueError)",
               "floats compared bit-exactly in the quarter regime and with 1e-12 relative tolerance otherwise"]

SPECIAL = ("VolumeOverflowError", "VolumeUnderflowError", "VolumeViolationException", "InvalidOperationError")
LIQ = ("aspirate", "dispense", "transfer", "distribute")
INDEP = ("comment", "wash", "flush", "commit", "decontaminate", "set_diti", "aspirate_well", "dispense_well",
         "reagent_distribution")


class Exec(ExecBase):
    def __init__(self):
        super().__init__()
        self.ok_liquid = 0
        self.faults_fired = []
        self.outcomes = []
        self.base_refused = 0


def close(a, b, exact):
    if a == b or (a != a and b != b):
        return True
    if exact:
        return False
    return abs(a - b) <= 1e-12 * max(1.0, abs(a), abs(b))


def state_diff(s1, s2, exact):
    """first difference between the labware states of two replicas, or None."""
    for i, g in enumerate(s1.geos):
        v1, v2 = s1.volumes(i), s2.volumes(i)
        for w in v1:
            if not close(v1[w], v2[w], exact):
                return f"volume of {g.name}{w}: {v1[w]!r} vs {v2[w]!r}"
        c1, c2 = s1.composition(i), s2.composition(i)
        if set(c1) != set(c2):
            return f"components of {g.name}: {sorted(set(c1) ^ set(c2))} only on one device"
        for name in c1:
            for w in c1[name]:
                if not close(c1[name][w], c2[name][w], exact):
                    return f"fraction of {name!r} in {g.name}{w}: {c1[name][w]!r} vs {c2[name][w]!r}"
        h1, h2 = s1.labs[i].history, s2.labs[i].history
        if len(h1) != len(h2):
            return f"history length of {g.name}: {len(h1)} vs {len(h2)}"
        for j, ((l1, a1), (l2, a2)) in enumerate(zip(h1, h2)):
            if l1 != l2:
                return f"history label {j} of {g.name}: {l1!r} vs {l2!r}"
            f1, f2 = a1.flatten().tolist(), a2.flatten().tolist()
            if len(f1) != len(f2) or not all(close(x, y, exact) for x, y in zip(f1, f2)):
                return f"history state {j} of {g.name} differs"
    return None


def geo_of(op, geos, which, rack):
    """the labware a record of this operation addresses, resolved through the operation's own arguments (labware
    *objects*), not through the rack label: two labware objects may carry the same name."""
    k = op["op"]
    if k == "transfer":
        idx = op["src"] if which == "A" else op["dst"]
    elif k == "distribute":
        idx = op["src"] if which == "Rsrc" else op["dst"]
    elif "lab" in op:
        idx = op["lab"]
    else:
        return None
    g = geos[idx] if isinstance(idx, int) and 0 <= idx < len(geos) else None
    return g if g is not None and g.name == rack else None


def record_diff(r1, r2, op, geos):
    """None if the EVO record r1 and the Fluent record r2 differ at most in trough positions."""
    if r1 == r2:
        return None
    f1, f2 = r1.split(";"), r2.split(";")
    if f1[0] != f2[0]:
        return f"record types differ: {r1!r} vs {r2!r}"
    allowed = set()
    if f1[0] in ("A", "D") and len(f1) == 11 and len(f2) == 11:
        g = geo_of(op, geos, f1[0], f1[1]) if f1[1] == f2[1] else None
        if g is not None and g.trough:
            allowed = {4}
            try:
                if g.from_position("evo", int(f1[4])) != g.from_position("fluent", int(f2[4])):
                    return f"positions address different wells of trough {f1[1]!r}: {r1!r} vs {r2!r}"
            except (KeyError, ValueError):
                return f"position outside trough {f1[1]!r}: {r1!r} vs {r2!r}"
    elif f1[0] == "R" and len(f1) >= 16 and len(f2) >= 16:
        gs = geo_of(op, geos, "Rsrc", f1[1]) if f1[1] == f2[1] else None
        gd = geo_of(op, geos, "Rdst", f1[6]) if f1[6] == f2[6] else None
        if gs is not None and gs.trough:
            allowed |= {4, 5}
        if gd is not None and gd.trough:
            allowed |= {9, 10} | set(range(16, max(len(f1), len(f2))))
    n = max(len(f1), len(f2))
    for k in range(n):
        a = f1[k] if k < len(f1) else None
        b = f2[k] if k < len(f2) else None
        if a != b and k not in allowed:
            return f"field {k + 1} differs: {r1!r} vs {r2!r}"
    return None


def execute(world, opsource):
    res = Exec()

    def fail(clause, idx, op, outcome, detail, facts=None):
        spec = {"format": 1, "property": PROP, "world": world, "ops": res.ops}
        res.add(Violation(PROP, clause, spec, idx, op["op"] if op else None, outcome, detail, facts=facts or {}))

    evo = Session(world, device="evo")
    flu = Session(world, device="fluent")
    base = Session(world, device="base")
    exact = world["regime"] == "quarter"
    geos = evo.geos
    base_sync = True  # base record list == evo record list and labware states equal
    i = 0
    try:
        while True:
            op = opsource(i, evo)
            if op is None:
                break
            res.ops.append(op)
            ne, nf, nb = len(evo.wl), len(flu.wl), len(base.wl)
            oe = evo.step(op)
            of = flu.step(op)
            ob = base.step(op)
            ce = oe.exc_type if not oe.ok else "ok"
            cf_ = of.exc_type if not of.ok else "ok"
            cb = ob.exc_type if not ob.ok else "ok"
            res.outcomes.append((ce, cf_, cb))
            k = op["op"]
            if oe.ok and of.ok and k in LIQ:
                res.ok_liquid += 1
            if not oe.ok:
                res.faults_fired.append(classify_fault(op, oe))
            # ---- outcome
            if oe.ok != of.ok:
                fail("C16.outcome", i, op, f"{ce}/{cf_}", f"{k}: EVO {'returned' if oe.ok else 'raised ' + ce}, Fluent {'returned' if of.ok else 'raised ' + cf_}")
            elif not oe.ok and (ce in SPECIAL or cf_ in SPECIAL) and ce != cf_:
                fail("C16.outcome", i, op, f"{ce}/{cf_}", f"{k}: EVO raised {ce}, Fluent raised {cf_}")
            # ---- state
            d = state_diff(evo, flu, exact)
            if d:
                fail("C16.state", i, op, f"{ce}/{cf_}", f"after {k} (EVO {ce}, Fluent {cf_}): {d}")
                break
            # ---- records
            re_, rf = evo.records(), flu.records()
            if len(re_) != len(rf):
                fail("C16.records", i, op, f"{ce}/{cf_}", f"{k} appended {len(re_) - ne} records on EVO and {len(rf) - nf} on Fluent")
                break
            for a, b in zip(re_[ne:], rf[nf:]):
                d = record_diff(a, b, op, geos)
                if d:
                    fail("C16.records", i, op, f"{ce}/{cf_}", d)
                    break
            # ---- base replica
            rb = base.records()
            newb = rb[nb:]
            if k in LIQ:
                bad = [r for r in newb if r[:2] in ("A;", "D;", "R;")]
                if bad:
                    fail("C16.base", i, op, cb, f"BaseWorklist.{k} appended {bad[0]!r}: it guessed a device-specific well number")
                emitted = [r for r in re_[ne:] if r[:2] in ("A;", "D;", "R;")]
                if base_sync and oe.ok and emitted:
                    if ob.ok:
                        fail("C16.base", i, op, cb, f"BaseWorklist.{k} returned normally although the operation needs device-specific numbering")
                    elif not isinstance(ob.exc, (TypeError, NotImplementedError)):
                        fail("C16.base", i, op, cb, f"BaseWorklist.{k} raised {cb}, expected a TypeError/CompatibilityError refusal")
                    else:
                        res.base_refused += 1
            elif k in INDEP and base_sync:
                if newb != re_[ne:] or ob.ok != oe.ok or (not ob.ok and cb != ce):
                    fail("C16.base", i, op, cb, f"device-independent {k}: BaseWorklist gave {newb!r} ({cb}), EvoWorklist {re_[ne:]!r} ({ce})")
            if base_sync:
                base_sync = rb == re_ and all(base.volumes_hex(j) == evo.volumes_hex(j) for j in range(len(evo.labs)))
            i += 1
            if len(evo.wl) > 5000:
                break
    except ShapeChanged as e:
        fail("C16.state", i, res.ops[-1] if res.ops else None, "ok", f"Labware.volumes shape changed: {e.args}")
    except Exception as e:  # noqa
        if not raised_in_sut(e):
            raise
        fail("C16.observe", i, res.ops[-1] if res.ops else None, "ok",
             f"observing a replica raised {type(e).__name__} inside robotools")
    res.events = [evo.events, flu.events, base.events]
    res.digest = digest_events(res.events)
    for v in res.violations:
        v.digest = res.digest
    return res


class Program:
    def __init__(self, rng, tier):
        self.rng = rng
        opts = {"device": "evo", "patterns": ["full", "uniform", "mixed", "mixed", "empty"], "allow_same_names": True}
        if rng.random() < 0.5:
            opts["need_trough"] = True
        self.world = gen_world(rng, opts)
        self.gen = Gen(rng, self.world, {"p_comp": 0.5, "dist_dups": True, "no_deprecated_wash": True, "no_evo_ops": True})
        r = rng.random()
        self.n = rng.randint(1, 8) if r < 0.6 else rng.randint(8, 20) if r < 0.92 else rng.randint(20, 50)
        if tier == "thorough" and rng.random() < 0.2:
            self.n = rng.randint(60, 300)  # thorough tier: some very long histories
        elif tier != "thorough" and rng.random() < 0.008:
            self.n = rng.randint(110, 280)  # quick tier: the occasional very long script (more than 100 / 256 steps)
        self.p_fault = rng.choice([0.0, 0.15, 0.25, 0.4])

    def source(self, i, sess):
        if i >= self.n:
            return None
        rng, g = self.rng, self.gen
        fault = rng.random() < self.p_fault
        r = rng.random()
        if r < 0.12:
            return g.gen_misc()
        if r < 0.17:
            return self.lowlevel()
        if fault and rng.random() < 0.25:
            return g.gen_invalid(sess)
        if r < 0.55:
            intent = rng.choice(["reject.underflow", "reject.overflow", "reject.oversize"]) if fault else "ok"
            return g.gen_transfer(sess, intent)
        if r < 0.7:
            intent = rng.choice(["reject.underflow", "reject.overflow", "reject.oversize"]) if fault else "ok"
            d = g.gen_distribute(sess, intent)
            if d is not None:
                return d
        kind = rng.choice(["aspirate", "dispense"])
        intent = "ok"
        if fault:
            intent = "reject.underflow" if kind == "aspirate" else "reject.overflow"
        return g.gen_addremove(sess, kind, intent=intent, kw=rng.random() < 0.5)

    def lowlevel(self):
        rng = self.rng
        labs = self.world["labware"]
        rack = rng.choice([l["name"] for l in labs] + ["Systemliquid"])
        v = float(rng.choice([0.0, 1.5, 10.0, self.gen.wl_max, self.gen.wl_max + 1]))
        if rng.random() < 0.6:
            return {"op": rng.choice(["aspirate_well", "dispense_well"]), "rack": rack, "pos": rng.randint(0, 96),
                    "volume": enc(v), "kw": self.gen.gen_kw()}
        return {"op": "reagent_distribution", "src_rack": rack, "ss": 1, "se": rng.randint(1, 8), "dst_rack": labs[0]["name"],
                "ds": 1, "de": rng.randint(1, 24), "volume": enc(max(v, 0.5)),
                "kw": {"multi_disp": rng.choice([1, 6, 12]), "direction": rng.choice(["left_to_right", "right_to_left"])}}


def list_source(ops):
    def src(i, sess):
        return ops[i] if i < len(ops) else None

    return src


def account(stats, world, res):
    stats.evaluations += 1
    stats.programs += 1
    stats.note_digest(res.digest, res.ok_liquid > 0 and len(res.faults_fired) > 0)
    for f in res.faults_fired:
        stats.faults[f] += 1
    for op, oc in zip(res.ops, res.outcomes):
        stats.transitions.add(transition_key(world, op, "/".join(oc)))
    stats.probes["base_refusals_judged"] += res.base_refused
    stats.last_exec = ({"format": 1, "property": PROP, "world": world, "ops": res.ops}, res.digest)
    if len(stats.samples) < 3 and res.ok_liquid > 1 and res.faults_fired:
        stats.samples.append({"world": world, "ops": res.ops, "outcomes": res.outcomes})


def explore(rng, tier, stats):
    prog = Program(rng, tier)
    res = execute(prog.world, prog.source)
    account(stats, prog.world, res)
    return res.violations


def replay(spec):
    return execute(spec["world"], list_source(spec["ops"]))
