"""Seeded workload generator: draws the next operation *against the current labware state*.

The generator is the stub "user script".  It may look at volumes (a user can) in order to aim:
succeed, land exactly on a limit, cross it by a lot / by one grid step / by one ulp / with inf, at
element k of an array call or sub-step k of a transfer.  Every draw comes from the one PRNG of the run.
The produced operation is concrete JSON; replay never calls this module.
"""
import math

from .geom import enc, well_id
from .world import COMPONENTS, snap, snap_down

LABELS = [None, None, "", "step", "mix 1", "Transfer µL", "two\nlines", "win\r\nlines", " padded label ", "L" * 40, "100%", "add {M9}", "{}", "50 % (v/v) }", "3 LVH steps", "prep (2 LVH steps)", "t", "st", "a"]
LIQUID_CLASSES = ["", "Water_DispZmax", "lc 1", "Ethanol"]
WASHES = [1, 1, 2, 3, 4, "flush", "reuse"]
WASHES_DEPRECATED = WASHES + WASHES + [None]  # None: deprecated, documented to behave like "reuse"
PARTS = ["auto", "auto", "source", "destination"]


def dyadic_composition(rng):
    """normalised composition with dyadic fractions (exact in binary)."""
    names = rng.sample(COMPONENTS, rng.choice([1, 1, 2, 3]))
    if len(names) == 1:
        return {names[0]: 1.0}
    if len(names) == 2:
        a = rng.choice([0.5, 0.25, 0.125, 0.75])
        return {names[0]: a, names[1]: 1.0 - a}
    return {names[0]: 0.5, names[1]: 0.25, names[2]: 0.25}


class Gen:
    def __init__(self, rng, world, cfg=None):
        self.rng = rng
        self.world = world
        self.cfg = cfg or {}
        self.regime = world["regime"]
        self.labs = world["labware"]
        from .geom import Geo, dec

        self.geos = [Geo(s) for s in self.labs]
        self.wl_max = float(dec(world["worklist"]["max_volume"]))
        self.auto_split = world["worklist"]["auto_split"]
        self.device = world["device"]

    def pick_vtype(self, op, key="volumes"):
        """sometimes hand the volumes over as ints / numpy float32 / int64 / numpy scalars - only when every value
        is exactly representable in that type, so that the requested volumes stay what the oracle thinks they are."""
        import struct
        from .geom import dec, flatten_f

        if "vtype" in op:
            return op
        if self.rng.random() > 0.25:
            return op
        vals = [dec(x) for x in flatten_f(op[key])]
        if not vals or any((v != v) or v in (math.inf, -math.inf) for v in vals):
            return op
        whole = all(float(v).is_integer() and abs(v) < 2 ** 31 for v in vals)
        f32 = all(struct.unpack("f", struct.pack("f", v))[0] == v for v in vals)
        choices = ["npscalar"]
        if not isinstance(op[key], list):
            choices += ["0d"]
        if whole:
            choices += ["int", "int64"]
            if all(0 <= v < 256 for v in vals):
                choices += ["uint8"]
            if all(0 <= v < 65536 for v in vals):
                choices += ["uint16"]
        if f32:
            choices += ["float32"]
        op["vtype"] = self.rng.choice(choices)
        return op

    def vols(self, view, li):
        """volumes the generator aims at; a state corrupted by the code under test (NaN, inf) must never crash
        the stub user script: NaN counts as empty, inf as a huge finite volume."""
        out = {}
        for w, v in view.volumes(li).items():
            if v != v:
                v = 0.0
            elif v in (math.inf, -math.inf):
                v = 1e300 if v > 0 else 0.0
            out[w] = v
        return out

    # ------------------------------------------------------------------ well arguments
    def wells_arg(self, geo, n_max=8, allow_2d=True, distinct=False):
        """-> (encoded wells argument, flat id list in column-major order, extra flags)"""
        rng = self.rng
        ids = geo.all_ids()
        r = rng.random()
        if r < 0.2:
            w = rng.choice(ids)
            return w, [w], ({"wstr_np": True} if rng.random() < 0.25 else {})
        if r < 0.35 and allow_2d and geo.idrows * geo.cols > 1:
            if rng.random() < 0.25 and geo.idrows * geo.cols <= 96:
                # the whole labware (`plate.wells`, possibly reversed: `plate.wells[::-1, :]`)
                r0, r1, c0, c1 = 0, geo.idrows, 0, geo.cols
            else:
                r0 = rng.randrange(geo.idrows)
                r1 = rng.randint(r0 + 1, min(geo.idrows, r0 + 4))
                c0 = rng.randrange(geo.cols)
                c1 = rng.randint(c0 + 1, min(geo.cols, c0 + 3))
            rows, cols = list(range(r0, r1)), list(range(c0, c1))
            o = rng.random()
            if o < 0.15 or 0.30 <= o < 0.36:
                rows.reverse()  # a slice with a negative step is still a 2-D slice of `wells`
            if 0.15 <= o < 0.36:
                cols.reverse()
            arr = [[geo.well_id(rr, cc) for cc in cols] for rr in rows]
            flat = [arr[i][j] for j in range(len(cols)) for i in range(len(rows))]
            return arr, flat, {}
        if r < 0.45:
            # one whole column, ascending rows (the typical call)
            c = rng.randrange(geo.cols)
            flat = [geo.well_id(rr, c) for rr in range(min(geo.idrows, n_max if n_max >= 8 else n_max))]
            return list(flat), flat, {"wnp": rng.random() < 0.3}
        n = rng.randint(1, max(1, min(n_max, 2 * len(ids))))
        if rng.random() < 0.1:
            flat = [rng.choice(ids) for _ in range(n)]
            return list(flat), flat, {"wtuple": True}
        if distinct:
            n = min(n, len(ids))
            flat = rng.sample(ids, n)
        else:
            pool = rng.sample(ids, min(len(ids), max(1, n - rng.choice([0, 0, 1, 2]))))
            flat = [rng.choice(pool) for _ in range(n)]
        return list(flat), flat, {"wnp": rng.random() < 0.2}

    def shape_like(self, warg, vals):
        """volumes argument with the same shape as the wells argument (or a list)."""
        if isinstance(warg, str):
            return vals[0] if self.rng.random() < 0.7 else [vals[0]]
        if warg and isinstance(warg[0], list):
            nr, nc = len(warg), len(warg[0])
            if self.rng.random() < 0.7:
                return [[vals[c * nr + r] for c in range(nc)] for r in range(nr)]
        return list(vals)

    # ------------------------------------------------------------------ volume aiming
    def typical(self, h):
        """a volume in (0, h] with a mix of scales."""
        rng = self.rng
        if self.regime == "free" and rng.random() < 0.12:
            # numerically special: rounding ties at the third decimal, below the printed resolution, around max_volume
            m = self.wl_max
            cands = [0.005, 0.004, 0.0049999, 0.015, 0.025, 1.005, 2.675, 10.125, 0.125, m, 2 * m, m - 0.005,
                     math.nextafter(m, math.inf), math.nextafter(m, 0.0), m + 0.004, 3 * m + 0.005]
            if m == int(m) and m <= 50:
                # a split whose last part is below the printed resolution: m-1 (or more) full steps and a crumb
                cands += [(m - 1) * m + 0.004, m * m + 0.0049, (m + 2) * m + 0.001, (m - 1) * m + 0.006]
            cands = [c for c in cands if 0 < c <= h]
            if cands:
                return rng.choice(cands)
        r = rng.random()
        if r < 0.15:
            return h
        if r < 0.5:
            return rng.uniform(0, h)
        if r < 0.8:
            return min(h, rng.uniform(0, min(h, self.wl_max)))
        return min(h, rng.uniform(0, min(h, 20.0)))

    def fits(self, direction, cur, v, lim):
        if direction == "rm":
            return not (cur - v < lim)
        return not (cur + v > lim)

    def fit_seq(self, direction, cur, wells, lim, zero_p=0.1):
        """per-element volumes that sequentially stay inside the limit; cur (dict) is updated."""
        vols = []
        for w in wells:
            h = (cur[w] - lim) if direction == "rm" else (lim - cur[w])
            if h <= 0 or self.rng.random() < zero_p:
                v = 0.0 if self.rng.random() < 0.9 else -0.0
            elif self.regime == "milli" and direction == "rm" and h > 0.01 and self.rng.random() < 0.15:
                # leave a crumb below the printed resolution behind (0.001 ... 0.004 uL above the limit)
                v = snap_down(h - self.rng.choice([0.001, 0.002, 0.004]), self.regime)
            elif self.rng.random() < 0.1:
                # land exactly on the limit *as computed by subtraction*, deliberately unverified: whether the
                # float sum/difference then rounds onto or one ulp past the limit is for the library to decide
                v = h if self.regime == "free" else snap_down(h, self.regime)
            else:
                v = snap_down(self.typical(h), self.regime)
                for _ in range(6):
                    if v <= 0 or self.fits(direction, cur[w], v, lim):
                        break
                    v = v - 0.25 if self.regime == "quarter" else snap_down(v * 0.999, self.regime)
                else:
                    v = 0.0
                if v < 0:
                    v = 0.0
            cur[w] = cur[w] - v if direction == "rm" else cur[w] + v
            vols.append(v)
        return vols

    def fit_scalar(self, direction, cur, wells, lim):
        counts = {}
        for w in wells:
            counts[w] = counts.get(w, 0) + 1
        hs = []
        for w, n in counts.items():
            h = (cur[w] - lim) if direction == "rm" else (lim - cur[w])
            hs.append(max(h, 0.0) / n)
        h = min(hs) if hs else 0.0
        v = snap_down(self.typical(h), self.regime) if h > 0 else 0.0
        for _ in range(8):
            sim = dict(cur)
            ok = True
            for w in wells:
                if not self.fits(direction, sim[w], v, lim):
                    ok = False
                    break
                sim[w] = sim[w] - v if direction == "rm" else sim[w] + v
            if ok:
                break
            v = snap_down(v * 0.99 - (0.25 if self.regime == "quarter" else 0.0), self.regime)
            if v <= 0:
                v = 0.0
        else:
            v = 0.0
        for w in wells:
            cur[w] = cur[w] - v if direction == "rm" else cur[w] + v
        return v

    def beyond(self, h, how):
        """a volume that crosses a headroom h >= 0 by `how`."""
        step = {"quarter": 0.25, "centi": 0.01}.get(self.regime, 0.01)
        if how == "big":
            return snap(h + self.rng.uniform(1, 500), self.regime) + step
        if how == "step":
            return snap_down(h, self.regime) + step
        if how == "ulp":
            return math.nextafter(h, math.inf)
        if how == "inf":
            return math.inf
        return h + 1.0

    def pick_how(self):
        return self.rng.choice(["big", "big", "step", "step", "ulp", "inf"]) if self.regime != "centi" else \
            self.rng.choice(["big", "step", "step", "inf"])

    # ------------------------------------------------------------------ direct / worklist add & remove
    def gen_addremove(self, view, kind, li=None, intent="ok", kw=False):
        """kind in add/remove/aspirate/dispense."""
        rng = self.rng
        li = rng.randrange(len(self.labs)) if li is None else li
        geo = self.geos[li]
        direction = "rm" if kind in ("remove", "aspirate") else "add"
        lim = geo.vmin if direction == "rm" else geo.vmax
        warg, flat, flags = self.wells_arg(geo, n_max=rng.choice([3, 8, 8, 24]))
        wells = [geo.real(w) for w in flat]
        cur = dict(self.vols(view, li))
        if direction == "rm" and intent == "ok" and not (isinstance(warg, list) and warg and isinstance(warg[0], list)):
            # a removal (even of 0) from a well that sits below min_volume is refused by the library:
            # steer successful removals away from such wells where possible
            good = [w for w in flat if cur[geo.real(w)] >= lim]
            if good and len(good) < len(flat):
                flat = good
                warg = list(flat) if not isinstance(warg, str) else flat[0]
                wells = [geo.real(w) for w in flat]
            elif not good:
                alt = [w for w in geo.all_ids() if cur[geo.real(w)] >= lim]
                if alt:
                    flat = [rng.choice(alt) for _ in flat]
                    warg = list(flat) if not isinstance(warg, str) else flat[0]
                    wells = [geo.real(w) for w in flat]
        op = {"op": kind, "lab": li, "wells": warg, "label": rng.choice(LABELS), "intent": intent}
        op.update(flags)
        if isinstance(warg, list) and warg and not isinstance(warg[0], list) and rng.random() < 0.12:
            op["wbuf"] = rng.choice(["list", "array"])
        worklist_cap = kind in ("aspirate", "dispense")
        if intent == "ok":
            if rng.random() < 0.3:
                v = self.fit_scalar(direction, cur, wells, lim)
                if worklist_cap:
                    v = min(v, snap_down(self.wl_max, self.regime))
                op["volumes"] = enc(v if rng.random() < 0.6 else [v])
            else:
                vols = self.fit_seq(direction, cur, wells, lim)
                if worklist_cap:
                    vols = [min(v, snap_down(self.wl_max, self.regime)) for v in vols]
                op["volumes"] = enc(self.shape_like(warg, vols))
                if rng.random() < 0.15:
                    op["vnp"] = True
        else:
            # cross the limit at element k
            k = rng.randrange(len(wells))
            vols = self.fit_seq(direction, cur, wells[:k], lim)
            if worklist_cap:
                # keep earlier elements emit-able so that the failure is the limit, not the step size
                vols = [min(v, snap_down(self.wl_max, self.regime)) for v in vols]
                cur = dict(self.vols(view, li))
                for w, v in zip(wells[:k], vols):
                    cur[w] = cur[w] - v if direction == "rm" else cur[w] + v
            w = wells[k]
            h = max((cur[w] - lim) if direction == "rm" else (lim - cur[w]), 0.0)
            how = self.pick_how()
            vols.append(self.beyond(h, how))
            op["intent"] = f"{intent}@{k}:{how}"
            rest = [snap_down(rng.uniform(0, 5), self.regime) for _ in wells[k + 1:]]
            vols.extend(rest)
            whole = False
            if how in ("big", "step") and rng.random() < 0.3 and all(v == v and v < 60000 for v in vols):
                # the same aimed rejection in whole microlitres (earlier elements rounded down: they still fit; the
                # crossing one rounded up: it still crosses), handed over in an integer type - unsigned ones included
                vols = [float(math.floor(v)) for v in vols[:k]] + [float(math.ceil(vols[k]))] + [float(math.floor(v)) for v in vols[k + 1:]]
                whole = True
            op["volumes"] = enc(self.shape_like(warg, vols))
            if whole:
                cands = ["int", "int64", "uint16"] + (["uint8"] if max(vols) < 256 else [])
                op["vtype"] = rng.choice(cands + ["uint16", "uint8"] if max(vols) < 256 else cands + ["uint16"])
        if kind in ("add", "dispense"):
            r = rng.random()
            if r < self.cfg.get("p_comp", 0.6):
                op["comps"] = [enc(dyadic_composition(rng)) if rng.random() < 0.9 else None for _ in flat]
                if all(c is None for c in op["comps"]):
                    op["comps"] = None
            else:
                op["comps"] = None
        if kind in ("aspirate", "dispense") and (kw or rng.random() < 0.3):
            op["kw"] = self.gen_kw()
        return self.pick_vtype(op)

    def gen_kw(self):
        rng = self.rng
        kw = {}
        if rng.random() < 0.6:
            kw["liquid_class"] = rng.choice(LIQUID_CLASSES)
        r = rng.random()
        if r < 0.2:
            kw["tip"] = rng.randint(1, 8)
        elif r < 0.3:
            kw["tip"] = {"tip": f"T{rng.randint(1, 8)}"}
        elif r < 0.4:
            kw["tip"] = [rng.randint(1, 8) for _ in range(rng.randint(1, 3))]
        if rng.random() < 0.15:
            kw["rack_id"] = rng.choice(["", "BC0001", "id-2"])
        if rng.random() < 0.1:
            kw["rack_type"] = rng.choice(["", "96 Well Microplate", "Trough 100ml"])
        if rng.random() < 0.05:
            kw["tube_id"] = "tube7"
        return kw

    # ------------------------------------------------------------------ transfer
    def gen_transfer(self, view, intent="ok", si=None, di=None):
        rng = self.rng
        n_labs = len(self.labs)
        si = rng.randrange(n_labs) if si is None else si
        di = (rng.randrange(n_labs) if rng.random() < 0.8 else si) if di is None else di
        gs, gd = self.geos[si], self.geos[di]
        n_max = rng.choice([1, 3, 8, 8, 16])
        swarg, sflat, sflags = self.wells_arg(gs, n_max=n_max)
        n = len(sflat)
        # destination argument with a compatible flattened length
        r = rng.random()
        dids = gd.all_ids()
        if n > 1 and r < 0.2:
            dwarg = rng.choice(dids)
            dflat = [dwarg] * n
        elif isinstance(swarg, list) and swarg and isinstance(swarg[0], list) and r < 0.6 \
                and gd.idrows >= len(swarg) and gd.cols >= len(swarg[0]):
            nr, nc = len(swarg), len(swarg[0])
            r0 = rng.randint(0, gd.idrows - nr)
            c0 = rng.randint(0, gd.cols - nc)
            dwarg = [[gd.well_id(r0 + rr, c0 + cc) for cc in range(nc)] for rr in range(nr)]
            dflat = [dwarg[rr][cc] for cc in range(nc) for rr in range(nr)]
        else:
            if n == 1 and rng.random() < 0.3:
                # one source, many destinations
                m = rng.randint(1, 6)
                dflat = [rng.choice(dids) for _ in range(m)]
                dwarg = list(dflat)
                n = m
                sflat = sflat * m
            else:
                dflat = [rng.choice(dids) for _ in range(n)]
                dwarg = list(dflat) if not (n == 1 and rng.random() < 0.5) else dflat[0]
        sw = [gs.real(w) for w in sflat]
        dw = [gd.real(w) for w in dflat]
        op = {"op": "transfer", "src": si, "sw": swarg, "dst": di, "dw": dwarg, "label": rng.choice(LABELS),
              "intent": intent}
        if rng.random() < 0.02:
            op["label"] = rng.choice(["first", "last"])
        if "wnp" in sflags and sflags["wnp"]:
            op["swnp"] = True
        if rng.random() < 0.8:
            op["wash"] = rng.choice(WASHES if self.cfg.get("no_deprecated_wash") else WASHES_DEPRECATED)
        if rng.random() < 0.6:
            op["part"] = rng.choice(PARTS)
        # volumes: order-independent sufficient condition (adds and removes budgeted separately)
        cs = dict(self.vols(view, si))
        cd = dict(self.vols(view, di)) if di != si else cs
        rm_budget = {w: max(cs[w] - gs.vmin, 0.0) for w in set(sw)}
        add_budget = {w: max(gd.vmax - cd[w], 0.0) for w in set(dw)}
        cap = self.wl_max * (rng.choice([0.5, 1, 1, 3, 6]) if self.auto_split else 1.0)
        vols = []
        allzero = rng.random() < 0.04
        for s, d in zip(sw, dw):
            h = min(rm_budget[s], add_budget[d], cap)
            if allzero or h <= 0 or rng.random() < 0.12:
                v = 0.0
            elif self.regime == "milli" and h > 0.01 and h == rm_budget[s] and rng.random() < 0.15:
                v = snap_down(h - rng.choice([0.001, 0.002, 0.004]), self.regime)  # leaves a crumb in the source well
            elif rng.random() < 0.08:
                v = h if self.regime == "free" else snap_down(h, self.regime)  # the float headroom, unverified (see fit_seq)
            else:
                v = snap_down(self.typical(h) * (1 - 1e-12 if self.regime != "quarter" else 1.0), self.regime)
                if self.regime != "quarter":
                    v = snap_down(v * 0.9999, self.regime)
            rm_budget[s] -= v
            add_budget[d] -= v
            vols.append(v)
        m = self.wl_max
        if intent == "ok" and vols and self.regime == "free" and self.auto_split and m == int(m) and m <= 50 and rng.random() < 0.15:
            # a split whose last part is a crumb below the printed resolution: (m-1) or more full steps + 0.00x
            k = rng.randrange(len(vols))
            room = min(rm_budget[sw[k]], add_budget[dw[k]]) + vols[k]
            cands = [c for c in ((m - 1) * m + 0.004, m * m + 0.0049, (m + 2) * m + 0.001, (m - 1) * m + 0.006) if c <= room]
            if cands:
                rm_budget[sw[k]] += vols[k]
                add_budget[dw[k]] += vols[k]
                vols[k] = rng.choice(cands)
                rm_budget[sw[k]] -= vols[k]
                add_budget[dw[k]] -= vols[k]
        if intent != "ok" and vols:
            k = rng.randrange(len(vols))
            how = self.pick_how()
            if intent == "reject.underflow":
                h = max(rm_budget[sw[k]] + vols[k], 0.0)
            elif intent == "reject.overflow":
                h = max(add_budget[dw[k]] + vols[k], 0.0)
            else:  # reject.oversize (only meaningful with auto_split off)
                h = self.wl_max
                how = rng.choice(["big", "step"])
            vols[k] = self.beyond(h, how)
            op["intent"] = f"{intent}@{k}:{how}"
        if len(set(vols)) == 1 and rng.random() < 0.5:
            op["volumes"] = enc(vols[0])
        else:
            from .geom import flatten_f
            same = not isinstance(swarg, str) and len(flatten_f(swarg)) == len(vols)
            op["volumes"] = enc(self.shape_like(swarg if same else list(vols), vols))
        if rng.random() < 0.3:
            op["kw"] = self.gen_kw()
        return self.pick_vtype(op)

    def gen_distribute_dupgap(self, view):
        """A distribution whose destination list names one position twice and leaves one position of the range out,
        so that the number of named wells equals the length of the range although the range has a gap; the volume fits
        every named well and would overflow the one left out. Only the exclusion list of the R record protects the gap.
        None if the world offers no such constellation."""
        rng = self.rng
        troughs = [i for i, g in enumerate(self.geos) if g.trough]
        plates = [i for i, g in enumerate(self.geos) if not g.trough and g.idrows * g.cols >= 3]
        rng.shuffle(troughs)
        rng.shuffle(plates)
        for si in troughs:
            gs = self.geos[si]
            cs = self.vols(view, si)
            for di in plates:
                gd = self.geos[di]
                cd = self.vols(view, di)
                ids = gd.all_ids()  # column-major = position order
                for _ in range(8):
                    k = rng.randint(3, min(6, len(ids)))
                    p0 = rng.randrange(0, len(ids) - k + 1)
                    block = ids[p0:p0 + k]
                    room = {w: gd.vmax - cd[gd.real(w)] for w in block}
                    gap = min(block[1:-1], key=lambda w: room[w])
                    named = [w for w in block if w != gap]
                    dup = max(named, key=lambda w: room[w])
                    if room[dup] / 2 <= room[gap] + 1.0:
                        continue
                    hi = min(min(room[w] for w in named if w != dup), room[dup] / 2, self.wl_max)
                    lo = room[gap] + 1.0
                    if hi <= lo:
                        continue
                    v = snap_down(rng.uniform(lo, hi), self.regime)
                    if not lo <= v <= hi:
                        continue
                    dflat = named + [dup]
                    rng.shuffle(dflat)
                    col = rng.randrange(gs.cols)
                    cols_ok = [c for c in range(gs.cols) if cs[(0, c)] - v * len(dflat) >= gs.vmin]
                    if not cols_ok:
                        continue
                    col = rng.choice(cols_ok)
                    return {"op": "distribute", "src": si, "col": col, "dst": di, "dw": dflat, "volume": enc(float(v)),
                            "intent": "ok:dupgap", "kw": {"label": rng.choice([x for x in LABELS if x is not None])}}
        return None

    def gen_self_volumes(self, view):
        """`wl.dispense(plate, plate.wells, plate.volumes)` (double every well) or `wl.aspirate(..., plate.volumes)`
        (empty every well): wells and volumes are the labware's own attribute objects. None if no labware fits."""
        rng = self.rng
        cands = list(range(len(self.labs)))
        rng.shuffle(cands)
        for li in cands:
            geo = self.geos[li]
            if geo.trough and geo.idrows != 1:
                continue  # wells (virtual rows x columns) and volumes (1 x columns) have different shapes
            cur = self.vols(view, li)
            vals = list(cur.values())
            if not vals or max(vals) > self.wl_max or max(vals) <= 0:
                continue
            kinds = []
            if all(2 * v <= geo.vmax for v in vals):
                kinds.append("dispense")
            if geo.vmin == 0:
                kinds.append("aspirate")
            if not kinds:
                continue
            rows = geo.idrows
            wells = [[geo.well_id(r, c) for c in range(geo.cols)] for r in range(rows)]
            vols = [[float(cur[(0, c) if geo.trough else (r, c)]) for c in range(geo.cols)] for r in range(rows)]
            return {"op": rng.choice(kinds), "lab": li, "wells": wells, "volumes": enc(vols), "label": rng.choice(LABELS),
                    "intent": "ok", "vself": True, "comps": None}
        return None

    def gen_chain_transfer(self, view, intent):
        """A transfer within one plate column whose steps overlap: a well is the destination of one step and the
        source of another. Executed in the order of the records (one tip at a time) the first step is refused;
        any other order of the bookkeeping (all removals first, all additions first) would let it through.
        intent: "reject.overflow" (A->B, B->C with B too full to receive first) or
                "reject.underflow" (B->A, C->B with B too empty to give first). Returns None when no plate fits."""
        rng = self.rng
        step = {"quarter": 0.25, "centi": 0.01}.get(self.regime, 0.01)
        cands = [i for i, g in enumerate(self.geos) if not g.trough and g.idrows >= 3]
        rng.shuffle(cands)
        for li in cands:
            geo = self.geos[li]
            cur = self.vols(view, li)
            cols = list(range(geo.cols))
            rng.shuffle(cols)
            for c in cols[:4]:
                for _ in range(6):
                    ra, rb, rc = sorted(rng.sample(range(geo.idrows), 3))
                    if intent == "reject.overflow":
                        w0, w1, w2 = (ra, c), (rb, c), (rc, c)  # w0 -> w1 (v), then w1 -> w2 (v2)
                        v2max = min(cur[w1] - geo.vmin, geo.vmax - cur[w2], self.wl_max)
                        if v2max < 2 * step:
                            continue
                        v2 = snap_down(rng.uniform(2 * step, v2max), self.regime)
                        v = snap_down(geo.vmax - cur[w1], self.regime) + step
                        if not (v <= v2 - step / 2 + (geo.vmax - cur[w1]) and v <= cur[w0] - geo.vmin and 0 < v <= self.wl_max
                                and cur[w1] + v > geo.vmax and v2 >= step):
                            continue
                        pairs = [(w0, w1, v), (w1, w2, v2)]
                    else:
                        w2, w1, w0 = (ra, c), (rb, c), (rc, c)  # w1 -> w2 (v2), then w0 -> w1 (v)
                        vmax_ = min(cur[w0] - geo.vmin, geo.vmax - cur[w1], self.wl_max)
                        if vmax_ < 2 * step:
                            continue
                        v = snap_down(rng.uniform(2 * step, vmax_), self.regime)
                        v2 = snap_down(max(cur[w1] - geo.vmin, 0.0), self.regime) + step
                        if not (v2 <= (cur[w1] - geo.vmin) + v - step / 2 and v2 <= geo.vmax - cur[w2] and 0 < v2 <= self.wl_max
                                and cur[w1] - v2 < geo.vmin and v >= step):
                            continue
                        pairs = [(w1, w2, v2), (w0, w1, v)]
                    if rng.random() < 0.3:
                        pairs.reverse()  # the listing order does not matter: steps are ordered by row
                    op = {"op": "transfer", "src": li, "dst": li,
                          "sw": [geo.well_id(*p[0]) for p in pairs], "dw": [geo.well_id(*p[1]) for p in pairs],
                          "volumes": enc([float(p[2]) for p in pairs]), "label": rng.choice(LABELS),
                          "intent": f"{intent}@chain"}
                    if rng.random() < 0.7:
                        op["wash"] = rng.choice(WASHES)
                    if rng.random() < 0.4:
                        op["part"] = rng.choice(PARTS)
                    return op
        return None

    # ------------------------------------------------------------------ distribute
    def gen_distribute(self, view, intent="ok"):
        rng = self.rng
        troughs = [i for i, g in enumerate(self.geos) if g.trough]
        if not troughs:
            return None
        si = rng.choice(troughs)
        gs = self.geos[si]
        di = rng.randrange(len(self.labs))
        if di == si and rng.random() < 0.8 and len(self.labs) > 1:
            di = rng.choice([i for i in range(len(self.labs)) if i != si])
        gd = self.geos[di]
        col = rng.randrange(gs.cols)
        if intent == "ok":
            srcv = self.vols(view, si)
            okcols = [c for c in range(gs.cols) if srcv[(0, c)] >= gs.vmin]
            if okcols:
                col = rng.choice(okcols)
        if self.cfg.get("dist_dups") and rng.random() < 0.3:
            # destinations with repeats / several virtual rows of one trough column (positions may coincide)
            ids = gd.all_ids()
            dflat = [rng.choice(ids) for _ in range(rng.randint(2, 6))]
        elif gd.trough:
            cols = rng.sample(range(gd.cols), rng.randint(1, gd.cols))
            dflat = [gd.well_id(rng.randrange(gd.idrows), c) for c in cols]
        else:
            ids = gd.all_ids()
            dflat = rng.sample(ids, rng.randint(1, min(len(ids), rng.choice([2, 4, 8, 12]))))
        dwarg = list(dflat)
        if rng.random() < 0.15 and not gd.trough and gd.idrows * gd.cols > 1:
            r0 = rng.randrange(gd.idrows)
            r1 = rng.randint(r0 + 1, min(gd.idrows, r0 + 3))
            c0 = rng.randrange(gd.cols)
            c1 = rng.randint(c0 + 1, min(gd.cols, c0 + 3))
            dwarg = [[gd.well_id(rr, cc) for cc in range(c0, c1)] for rr in range(r0, r1)]
            dflat = [dwarg[rr][cc] for cc in range(c1 - c0) for rr in range(r1 - r0)]
        dw = [gd.real(w) for w in dflat]
        n = len(dw)
        cs = self.vols(view, si)
        cd = self.vols(view, di)
        src_h = max(cs[(0, col)] - gs.vmin, 0.0)
        cnt = {}
        for w in dw:
            cnt[w] = cnt.get(w, 0) + 1
        dst_h = min(max(gd.vmax - cd[w], 0.0) / cnt[w] for w in dw)
        h = min(src_h / n, dst_h, self.wl_max)
        v = snap_down(self.typical(h) * (0.9999 if self.regime != "quarter" else 1.0), self.regime) if h > 0 else 0.0
        if rng.random() < 0.03:
            v = 0.0
        how = None
        if intent == "reject.underflow":
            how = self.pick_how()
            v = self.beyond(src_h, how) / n if how != "inf" else math.inf
            if how in ("big", "step"):
                v = snap(v, self.regime) + (0.25 if self.regime == "quarter" else 0.01)
        elif intent == "reject.overflow":
            how = self.pick_how()
            v = self.beyond(dst_h, how)
        elif intent == "reject.oversize":
            how = "big"
            v = snap(self.wl_max + rng.uniform(0.25, 100), self.regime) + 0.25
        op = {"op": "distribute", "src": si, "col": col, "dst": di, "dw": dwarg, "volume": enc(v),
              "intent": intent if how is None else f"{intent}:{how}"}
        kw = {}
        if rng.random() < 0.7:
            kw["label"] = rng.choice([x for x in LABELS if x is not None])
        if rng.random() < 0.4:
            kw["multi_disp"] = rng.choice([1, 2, 6, 12])
        if rng.random() < 0.2:
            kw["diti_reuse"] = rng.choice([1, 2, 3])
        if rng.random() < 0.3:
            kw["direction"] = rng.choice(["left_to_right", "right_to_left"])
        if rng.random() < 0.4:
            kw["liquid_class"] = rng.choice(LIQUID_CLASSES)
        op["kw"] = kw
        return op

    # ------------------------------------------------------------------ EVO script commands
    def gen_evo(self, view, kind, intent="ok", canonical=True):
        rng = self.rng
        li = rng.randrange(len(self.labs))
        geo = self.geos[li]
        spec = self.labs[li]
        c = rng.randrange(geo.cols)
        n = rng.randint(1, min(8, geo.idrows))
        rows = sorted(rng.sample(range(geo.idrows), n))
        tips = sorted(rng.sample(range(1, 9), n))
        flat = [geo.well_id(r, c) for r in rows]
        if not canonical:
            # wells and/or tips in another order than ascending: the EVO still serves ascending wells with
            # ascending tips, so only the *wells* order matters for what each well gets (tips order is legal)
            r = rng.random()
            if r < 0.5:
                rng.shuffle(tips)
            elif r < 0.75:
                rng.shuffle(flat)
            else:
                rng.shuffle(flat)
                rng.shuffle(tips)
        wells = [geo.real(w) for w in flat]
        direction = "rm" if kind == "evo_aspirate" else "add"
        lim = geo.vmin if direction == "rm" else geo.vmax
        cur = dict(self.vols(view, li))
        cap = snap_down(self.wl_max, self.regime)
        op = {"op": kind, "lab": li, "wells": list(flat) if not (n == 1 and rng.random() < 0.3) else flat[0],
              "pos": [spec["grid"], spec["site"]],
              "tips": [t if rng.random() < 0.7 else {"tip": f"T{t}"} for t in tips],
              "lc": rng.choice(LIQUID_CLASSES), "arm": rng.choice([0, 0, 1]), "label": rng.choice(LABELS),
              "intent": intent}
        if intent == "ok":
            if rng.random() < 0.3:
                v = min(self.fit_scalar(direction, cur, wells, lim), cap)
                op["volumes"] = enc(float(v))
            else:
                vols = [min(v, cap) for v in self.fit_seq(direction, cur, wells, lim)]
                op["volumes"] = enc([float(v) for v in vols])
        elif geo.trough and n >= 2 and rng.random() < 0.4:
            # one scalar volume for n tips that all dip into the same trough cavity: each share fits, the sum does not
            w = wells[0]
            h = max((cur[w] - lim) if direction == "rm" else (lim - cur[w]), 0.0)
            step = {"quarter": 0.25, "centi": 0.01}.get(self.regime, 0.01)
            v = min(snap(h / n, self.regime) + step, cap)
            op["volumes"] = enc(float(v))
            op["intent"] = f"{intent}@scalar"
        else:
            k = rng.randrange(n)
            vols = [min(v, cap) for v in self.fit_seq(direction, cur, wells[:k], lim)]
            cur = dict(self.vols(view, li))
            for w, v in zip(wells[:k], vols):
                cur[w] = cur[w] - v if direction == "rm" else cur[w] + v
            h = max((cur[wells[k]] - lim) if direction == "rm" else (lim - cur[wells[k]]), 0.0)
            how = self.pick_how()
            vols.append(self.beyond(h, how))
            vols.extend(0.0 for _ in wells[k + 1:])
            op["volumes"] = enc([float(v) for v in vols])
            op["intent"] = f"{intent}@{k}:{how}"
        if kind == "evo_dispense" and rng.random() < 0.5:
            op["comps"] = [enc(dyadic_composition(rng)) for _ in flat]
        if isinstance(op["wells"], list) and len(op["wells"]) > 1 and rng.random() < 0.15:
            op["wcol"] = True
        return op

    # ------------------------------------------------------------------ non-liquid records
    def gen_misc(self, nrec_is_start_or_break=False):
        rng = self.rng
        r = rng.random()
        if r < 0.3:
            return {"op": "comment", "text": rng.choice(["hello", "µL step", "a\nb", "  padded  ", "", "x" * 40, "win\r\nlines\r\n"])}
        if r < 0.5:
            return {"op": "wash", "scheme": rng.randint(1, 4)}
        if r < 0.65:
            return {"op": "flush"}
        if r < 0.8:
            return {"op": "commit"}
        if r < 0.9:
            return {"op": "decontaminate"}
        return {"op": "set_diti", "index": rng.randint(1, 4)}

    # ------------------------------------------------------------------ invalid-argument faults
    def _poison(self, op, value):
        """puts `value` into the volumes of op: as the scalar, or as one element of the list / matrix."""
        from .geom import dec
        rng = self.rng
        key = "volume" if op["op"] == "distribute" else "volumes"
        v = dec(op[key])
        if isinstance(v, list) and v and rng.random() < 0.6:
            if isinstance(v[0], list):
                v[rng.randrange(len(v))][rng.randrange(len(v[0]))] = value
            else:
                v[rng.randrange(len(v))] = value
            op[key] = enc(v)
        else:
            op[key] = enc(value)
        op.pop("vtype", None)
        return op

    def gen_invalid(self, view, choices=None):
        """an operation that must be refused for a reason other than a volume limit."""
        rng = self.rng
        if choices is None and self.cfg.get("no_evo_ops"):
            choices = ["badwell", "semicolon_label", "semicolon_lc", "badtip", "lenmismatch", "badpart", "badwash", "huge",
                       "negative", "nan", "dist_nontrough", "dist_col", "longlabel", "comps_len", "negative", "nan"]
        li = rng.randrange(len(self.labs))
        geo = self.geos[li]
        choice = rng.choice(choices or ["badwell", "semicolon_label", "semicolon_lc", "badtip", "lenmismatch", "badpart",
                                        "badwash", "huge", "negative", "nan", "dist_nontrough", "dist_col", "longlabel",
                                        "comps_len", "negative", "nan", "evo_multicol"])
        if choice == "evo_multicol":
            # an EVO script command can only address wells of one column; a selection that spans two must be refused
            wide = [i for i, g in enumerate(self.geos) if g.cols >= 2 and not g.trough]
            if self.device != "evo" or not wide:
                choice = "negative"
            else:
                kind = rng.choice(["evo_aspirate", "evo_dispense"])
                op = self.gen_evo(view, kind, intent="ok")
                g2 = self.geos[op["lab"]]
                if g2.cols < 2 or not isinstance(op["wells"], list) or len(op["wells"]) < 2:
                    choice = "negative"
                else:
                    r, c = g2.parse(op["wells"][-1])
                    op["wells"][-1] = g2.well_id(r, (c + 1) % g2.cols)
                    op.pop("wcol", None)
                    op["intent"] = "reject.invalid:evo_multicol"
                    return op
        base = self.gen_transfer(view, "ok") if rng.random() < 0.5 else \
            self.gen_addremove(view, rng.choice(["aspirate", "dispense"]), intent="ok")
        op = base
        op["intent"] = "reject.invalid:" + choice
        if choice == "badwell":
            bad = rng.choice(["Z99", well_id(geo.idrows, 0) if geo.idrows < 26 else "Z99", well_id(0, geo.cols), "A1", "1A", ""])
            if op["op"] == "transfer":
                if rng.random() < 0.5:
                    op["sw"] = bad
                else:
                    op["dw"] = bad
            else:
                w = op["wells"]
                if isinstance(w, list) and w and not isinstance(w[0], list):
                    w[rng.randrange(len(w))] = bad
                else:
                    op["wells"] = bad
        elif choice == "semicolon_label":
            op["label"] = "bad;label"
        elif choice == "semicolon_lc":
            op.setdefault("kw", {})["liquid_class"] = "a;b"
        elif choice == "badtip":
            op.setdefault("kw", {})["tip"] = rng.choice([0, 9, [1, 9], [{"tip": "Any"}], -3])
        elif choice == "lenmismatch":
            if op["op"] == "transfer":
                op["sw"] = [well_id(0, 0)] * 2
                op["dw"] = [self.geos[op["dst"]].all_ids()[0]] * 3
                op["volumes"] = enc([1.0, 1.0])
            else:
                op["wells"] = [geo.all_ids()[0]] * 2
                op["volumes"] = enc([1.0, 1.0, 1.0])
                if op.get("comps") is not None:
                    op["comps"] = None
        elif choice == "badpart":
            if op["op"] != "transfer":
                op = self.gen_transfer(view, "ok")
                op["intent"] = "reject.invalid:" + choice
            op["part"] = rng.choice(["column", "", "Source"])
        elif choice == "badwash":
            if op["op"] != "transfer":
                op = self.gen_transfer(view, "ok")
                op["intent"] = "reject.invalid:" + choice
            op["wash"] = rng.choice([0, 5, "wash", "Flush"])
        elif choice == "huge":
            # beyond the format's volume range; never through an auto-splitting transfer (that would
            # legitimately emit tens of thousands of records)
            if op["op"] == "transfer" and self.auto_split:
                op = self.gen_addremove(view, rng.choice(["aspirate", "dispense"]), intent="ok")
                op["intent"] = "reject.invalid:" + choice
            op["volumes"] = enc(7158279.0)
        elif choice == "negative":
            # clearly negative, or so slightly that a tolerant comparison lets it through (-2.8e-17 = 0.3 - 0.2 - 0.1)
            op = self._poison(op, rng.choice([-1.0, -0.004, -1e-9, -5e-9, 0.3 - 0.2 - 0.1, -5e-324]))
        elif choice == "nan":
            op = self._poison(op, math.nan)
        elif choice == "dist_nontrough":
            plates = [i for i, g in enumerate(self.geos) if not g.trough]
            if not plates:
                return self.gen_invalid(view)
            si = rng.choice(plates)
            di = rng.randrange(len(self.labs))
            op = {"op": "distribute", "src": si, "col": 0, "dst": di, "dw": [self.geos[di].all_ids()[0]],
                  "volume": enc(1.0), "kw": {}, "intent": "reject.invalid:" + choice}
        elif choice == "dist_col":
            d = self.gen_distribute(view, "ok")
            if d is None:
                return self.gen_invalid(view)
            d["col"] = self.geos[d["src"]].cols + rng.randint(0, 2)
            d["intent"] = "reject.invalid:" + choice
            op = d
        elif choice == "longlabel":
            op.setdefault("kw", {})["rack_id"] = "x" * 33
        elif choice == "comps_len":
            # compositions that do not pair up with the wells (one composition for several wells, ...)
            if op["op"] != "dispense":
                op = self.gen_addremove(view, "dispense", intent="ok")
                op["intent"] = "reject.invalid:" + choice
            from .geom import flatten_f
            n = len(flatten_f(op["wells"]))
            m = rng.choice([1, n - 1, n + 1]) if n > 2 else (1 if n != 1 else 2)
            op["comps"] = [enc(dyadic_composition(rng)) for _ in range(max(m, 1))]
            if len(op["comps"]) == n:
                op["comps"].append(enc(dyadic_composition(rng)))
        return op
