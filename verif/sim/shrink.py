"""Deterministic minimisation of a failing concrete spec (delta debugging, no randomness).

A candidate is accepted only if replaying it yields a violation with the same clause id and the same
culprit operation kind.  Works on the generic spec shape {"world", "ops", "fault"?}.
"""
import copy
import time

from .geom import dec, enc


def _clone(x):
    return copy.deepcopy(x)


def _lab_refs(op):
    return [k for k in ("lab", "src", "dst") if k in op and isinstance(op[k], int)]


def remove_labware(spec, idx):
    s = _clone(spec)
    for op in s["ops"]:
        for k in _lab_refs(op):
            if op[k] == idx:
                return None
            if op[k] > idx:
                op[k] -= 1
    for lab in s["world"]["labware"]:
        if lab.get("replica_of") == idx:
            return None
    del s["world"]["labware"][idx]
    for lab in s["world"]["labware"]:
        if isinstance(lab.get("replica_of"), int) and lab["replica_of"] > idx:
            lab["replica_of"] -= 1
    if not s["world"]["labware"]:
        return None
    return s


def _simpler_volume(v):
    """candidates for a simpler encoded volume (hex string or int)."""
    x = dec(v)
    if not isinstance(x, float) or x != x or x in (float("inf"), float("-inf")):
        return []
    out = []
    for c in (float(round(x)), float(int(x)), round(x, 1), round(x * 4) / 4):
        if c != x and c >= 0:
            out.append(enc(c))
    return out


def _map_volumes(v, fn):
    if isinstance(v, list):
        return [_map_volumes(x, fn) for x in v]
    return fn(v)


def op_simplifications(op):
    """yields simpler variants of one op."""
    for key in ("label",):
        if op.get(key) not in (None,):
            o = _clone(op)
            o[key] = None
            yield o
    if op.get("kw"):
        for k in list(op["kw"]):
            o = _clone(op)
            del o["kw"][k]
            yield o
    for flag in ("wnp", "vnp", "swnp", "dwnp"):
        if op.get(flag):
            o = _clone(op)
            o[flag] = False
            yield o
    if op.get("comps"):
        o = _clone(op)
        o["comps"] = None
        yield o
    for key in ("wash", "part"):
        if key in op:
            o = _clone(op)
            del o[key]
            yield o
    # shorten 1-D list arguments (wells with their volumes)
    if op["op"] in ("add", "remove", "aspirate", "dispense") and isinstance(op.get("wells"), list) \
            and op["wells"] and not isinstance(op["wells"][0], list) and len(op["wells"]) > 1:
        n = len(op["wells"])
        vol_list = isinstance(op.get("volumes"), list) and len(op["volumes"]) == n
        for i in range(n):
            o = _clone(op)
            del o["wells"][i]
            if vol_list:
                del o["volumes"][i]
            if isinstance(o.get("comps"), list) and len(o["comps"]) == n:
                del o["comps"][i]
            yield o
    if op["op"] in ("evo_aspirate", "evo_dispense") and isinstance(op.get("wells"), list) and len(op["wells"]) > 1:
        n = len(op["wells"])
        for i in range(n):
            o = _clone(op)
            del o["wells"][i]
            del o["tips"][i]
            if isinstance(o.get("volumes"), list) and len(o["volumes"]) == n:
                del o["volumes"][i]
            if isinstance(o.get("comps"), list) and len(o["comps"]) == n:
                del o["comps"][i]
            yield o
    if op["op"] == "transfer":
        lists = [k for k in ("sw", "dw", "volumes") if isinstance(op.get(k), list) and op[k] and not isinstance(op[k][0], list)]
        lens = {len(op[k]) for k in lists}
        if lists and len(lens) == 1 and lens.pop() > 1:
            n = len(op[lists[0]])
            for i in range(n):
                o = _clone(op)
                for k in lists:
                    del o[k][i]
                yield o
    if op["op"] == "distribute" and isinstance(op.get("dw"), list) and op["dw"] and not isinstance(op["dw"][0], list) \
            and len(op["dw"]) > 1:
        for i in range(len(op["dw"])):
            o = _clone(op)
            del o["dw"][i]
            yield o
    # simpler volumes
    for key in ("volumes", "volume"):
        if key in op:
            flat = []
            _map_volumes(op[key], lambda v: flat.append(v) or v)
            for j, v in enumerate(flat):
                for cand in _simpler_volume(v):
                    o = _clone(op)
                    cnt = [0]

                    def rep(x, j=j, cand=cand, cnt=cnt):
                        cnt[0] += 1
                        return cand if cnt[0] - 1 == j else x

                    o[key] = _map_volumes(o[key], rep)
                    yield o
                    break


def world_simplifications(world):
    w = world["worklist"]
    if w.get("diti_mode"):
        s = _clone(world)
        s["worklist"]["diti_mode"] = False
        yield s
    if w.get("path_kind") != "str":
        s = _clone(world)
        s["worklist"]["path_kind"] = "str"
        yield s
    if w.get("file") != "out.gwl":
        s = _clone(world)
        s["worklist"]["file"] = "out.gwl"
        yield s
    if world.get("disk", {}).get("prestate") != "none":
        s = _clone(world)
        s["disk"]["prestate"] = "none"
        yield s
    if w.get("max_volume_default"):
        s = _clone(world)
        s["worklist"]["max_volume_default"] = False
        yield s
    for knob in ("ctor_positional", "legacy_class"):
        if w.get(knob):
            s = _clone(world)
            s["worklist"][knob] = False
            yield s
    if w.get("flag_type"):
        s = _clone(world)
        s["worklist"]["flag_type"] = None
        yield s
    if w.get("max_volume") != 950:
        s = _clone(world)
        s["worklist"]["max_volume"] = 950
        yield s
    for i, lab in enumerate(world["labware"]):
        if lab.get("names"):
            s = _clone(world)
            s["labware"][i]["names"] = None
            yield s


def shrink(replay_fn, spec, key, max_evals=600, max_seconds=90.0, keep_last=False):
    """-> (smaller spec, number of replays used). replay_fn(spec) -> violation-or-None."""
    t0 = time.time()
    evals = [0]

    def test(s):
        if s is None:
            return False
        if evals[0] >= max_evals or time.time() - t0 > max_seconds:
            return False
        evals[0] += 1
        try:
            v = replay_fn(s)
        except Exception:
            return False
        return v is not None and v.key() == key

    cur = _clone(spec)
    progress = True
    while progress and evals[0] < max_evals and time.time() - t0 <= max_seconds:
        progress = False
        # 1. remove operations (ddmin-style: halves, then singles)
        n = len(cur["ops"])
        last = n - 1 if keep_last else n
        chunk = max(1, last // 2)
        while chunk >= 1 and last > 0:
            i = 0
            removed_any = False
            while i < last:
                s = _clone(cur)
                del s["ops"][i:min(i + chunk, last)]
                if len(s["ops"]) < len(cur["ops"]) and s["ops"] and test(s):
                    cur = s
                    last = len(cur["ops"]) - 1 if keep_last else len(cur["ops"])
                    removed_any = True
                    progress = True
                else:
                    i += chunk
            if chunk == 1:
                break
            chunk = max(1, chunk // 2)
            if not removed_any and chunk < 1:
                break
        # 2. remove unused labware
        i = 0
        while i < len(cur["world"]["labware"]):
            s = remove_labware(cur, i)
            if s is not None and test(s):
                cur = s
                progress = True
            else:
                i += 1
        # 3. simplify each operation
        for oi in range(len(cur["ops"])):
            changed = True
            while changed:
                changed = False
                for cand in op_simplifications(cur["ops"][oi]):
                    s = _clone(cur)
                    s["ops"][oi] = cand
                    if test(s):
                        cur = s
                        changed = True
                        progress = True
                        break
                if evals[0] >= max_evals:
                    break
        # 4. world knobs
        changed = True
        while changed:
            changed = False
            for cand in world_simplifications(cur["world"]):
                s = _clone(cur)
                s["world"] = cand
                if test(s):
                    cur = s
                    changed = True
                    progress = True
                    break
        # 5. earliest interrupt line
        f = cur.get("fault")
        if f and f.get("kind", "").startswith("interrupt") and f.get("k", 1) > 1:
            for k in range(1, f["k"]):
                s = _clone(cur)
                s["fault"]["k"] = k
                if test(s):
                    cur = s
                    progress = True
                    break
                if k > 40:
                    break
    return cur, evals[0]
