"""Interrupt seam: raise an exception at the k-th executed line of robotools code (sys.settrace).

`LineInjector(k, kind)` is a context manager.  With k=None it only counts line events.
The count is over `line` events of frames whose code lives under $VERIF_REPO/robotools
(test files excluded - they never run here).  After the injected raise CPython removes the
trace function, so code that runs afterwards (`__exit__`, `save`) is undisturbed.
"""
import sys

from .. import rt


class InjectedInterrupt(KeyboardInterrupt):
    """Asynchronous abort: a KeyboardInterrupt (Ctrl-C) arriving at an arbitrary source line."""


class InjectedError(Exception):
    """Asynchronous error (MemoryError-like: an Exception subclass)."""


class LineInjector:
    def __init__(self, k=None, kind="interrupt", only_files=None):
        self.k = k
        self.kind = kind
        self.count = 0
        self.fired = False
        self.fired_at = None  # (basename, lineno, funcname)
        self.prefix = rt.PKG_PREFIX
        self.only_files = only_files

    def _global(self, frame, event, arg):
        fn = frame.f_code.co_filename
        if not fn.startswith(self.prefix):
            return None
        if self.only_files is not None and not fn.endswith(self.only_files):
            return None
        return self._local

    def _local(self, frame, event, arg):
        if event == "line":
            self.count += 1
            if self.k is not None and self.count == self.k and not self.fired:
                self.fired = True
                code = frame.f_code
                self.fired_at = (code.co_filename[len(self.prefix):], frame.f_lineno, code.co_name)
                if self.kind == "interrupt":
                    raise InjectedInterrupt()
                raise InjectedError()
        return self._local

    def __enter__(self):
        self._old = sys.gettrace()
        sys.settrace(self._global)
        return self

    def __exit__(self, *a):
        sys.settrace(self._old)
        return False


def settle(exc):
    """Deterministic aftermath of an injected exception: an exception raised at a line event can strike where a
    real asynchronous exception only rarely does (e.g. on the `with` line that is re-visited just before `__exit__`
    is called) and leave generator-based context managers of the code under test suspended. Their finalisation -
    which may run clean-up code of the system under test - must not depend on when the garbage collector happens
    to run or on how long the harness holds the traceback, so it is forced at once."""
    import gc
    import traceback

    if exc is not None:
        try:
            traceback.clear_frames(exc.__traceback__)
        except Exception:  # noqa
            pass
        exc.__traceback__ = None
        exc.__context__ = None
        exc.__cause__ = None
    gc.collect(1)
