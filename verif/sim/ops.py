"""Operations: concrete JSON form, execution against real robotools, and the model-side *plan*.

`exec_op` is the program seam: it calls exactly what a user script calls.
`plan` computes, from the arguments alone (own parser, explicit loops), the elementary liquid moves
an operation *requests*.  It never looks at robotools objects.
"""
from fractions import Fraction

from .geom import broadcast, dec, flatten_f, frac

LIQUID_OPS = {"add", "remove", "aspirate", "dispense", "transfer", "distribute", "evo_aspirate", "evo_dispense"}
WORKLIST_LIQUID_OPS = LIQUID_OPS - {"add", "remove"}


class PlanInvalid(Exception):
    """The operation's arguments are malformed (unknown well, mismatching lengths, negative volume...)."""


# ----------------------------------------------------------------------------- argument decoding
def _np_if(x, flag):
    if flag or (isinstance(x, list) and x and isinstance(x[0], list)):
        import numpy as np

        return np.array(x)
    return x


_STATE = {"buffers": None}


def _wells(op, key="wells", flag="wnp"):
    w = op[key]
    bufs = _STATE["buffers"]
    if op.get("wbuf") and key == "wells" and bufs is not None and isinstance(w, list) and w and not isinstance(w[0], list):
        # the script keeps ONE selection object per labware and refills it before every call
        # (`sel[:] = [...]` / `sel[...] = ...`): the same mutable object is handed over again with other content
        kind = op["wbuf"]
        k = (op.get("lab"), kind, len(w) if kind == "array" else None)
        if kind == "list":
            buf = bufs.setdefault(k, [])
            buf[:] = list(w)
            return buf
        import numpy as np

        buf = bufs.get(k)
        if buf is None:
            buf = bufs[k] = np.array(["_" * 8] * len(w))
        buf[...] = w
        return buf
    if isinstance(w, str) and op.get("wstr_np") and key == "wells":
        import numpy as np

        return np.str_(w)  # a single id as it comes out of `labware.wells[r, c]`
    if op.get("wtuple") and key == "wells" and isinstance(w, list) and w and not isinstance(w[0], list):
        return tuple(w)
    return _np_if(w, op.get(flag, False))


def _as_ints(x):
    if isinstance(x, list):
        return [_as_ints(v) for v in x]
    return int(x)


def _vols(op, key="volumes", flag="vnp"):
    """volumes argument; "vtype" selects the Python/numpy number type the user script happens to use
    (all values were checked to be exactly representable in that type when the op was generated)."""
    v = dec(op[key])
    vt = op.get("vtype")
    if vt == "int":
        return _np_if(_as_ints(v), op.get(flag, False))
    if vt == "0d" and not isinstance(v, list):
        import numpy as np

        return np.array(float(v))  # a 0-d array (e.g. `volumes.max()` of a masked selection, `np.asarray(5.0)`)
    if vt in ("float32", "int64", "npscalar", "uint8", "uint16"):
        import numpy as np

        if vt == "npscalar":
            return np.float64(v) if not isinstance(v, list) else np.array(v, dtype=np.float64)
        return np.array(v, dtype={"float32": np.float32, "int64": np.int64, "uint8": np.uint8, "uint16": np.uint16}[vt])
    return _np_if(v, op.get(flag, False))


def _tip(rt, t):
    if isinstance(t, dict):
        return rt.Tip[t["tip"]]
    if isinstance(t, list):
        return [_tip(rt, x) for x in t]
    return t


def _kw(rt, op):
    kw = dict(op.get("kw") or {})
    if "tip" in kw:
        kw["tip"] = _tip(rt, kw["tip"])
    for k in ("volume",):
        if k in kw:
            kw[k] = dec(kw[k])
    return kw


def _comps(op):
    c = op.get("comps")
    if c is None:
        return None
    return [None if d is None else {k: dec(v) for k, v in d.items()} for d in c]


# ----------------------------------------------------------------------------- execution
def exec_op(rt, wl, labs, op, buffers=None):
    _STATE["buffers"] = buffers
    k = op["op"]
    if k == "add":
        return labs[op["lab"]].add(_wells(op), _vols(op), op.get("label"), compositions=_comps(op))
    if k == "remove":
        return labs[op["lab"]].remove(_wells(op), _vols(op), op.get("label"))
    if k in ("aspirate", "dispense") and op.get("vself"):
        # `wl.dispense(plate, plate.wells, plate.volumes)`: the arguments are the labware's own attribute objects
        # (double every well / empty every well) - the recorded matrices in the op are what they hold at that moment
        lab = labs[op["lab"]]
        if k == "aspirate":
            return wl.aspirate(lab, lab.wells, lab.volumes, label=op.get("label"))
        return wl.dispense(lab, lab.wells, lab.volumes, label=op.get("label"))
    if k == "aspirate":
        return wl.aspirate(labs[op["lab"]], _wells(op), _vols(op), label=op.get("label"), **_kw(rt, op))
    if k == "dispense":
        return wl.dispense(labs[op["lab"]], _wells(op), _vols(op), label=op.get("label"),
                           compositions=_comps(op), **_kw(rt, op))
    if k == "transfer":
        extra = {}
        if "wash" in op:
            extra["wash_scheme"] = op["wash"]
        if "part" in op:
            extra["partition_by"] = op["part"]
        return wl.transfer(labs[op["src"]], _wells(op, "sw", "swnp"), labs[op["dst"]], _wells(op, "dw", "dwnp"),
                           _vols(op), label=op.get("label"), **extra, **_kw(rt, op))
    if k == "distribute":
        return wl.distribute(labs[op["src"]], op["col"], labs[op["dst"]], _wells(op, "dw", "dwnp"),
                             volume=dec(op["volume"]), **_kw(rt, op))
    if k in ("evo_aspirate", "evo_dispense"):
        lab = labs[op["lab"]]
        w = op["wells"]
        if op.get("wcol") and isinstance(w, list):
            import numpy as np
            w = np.array(w).reshape(-1, 1)  # e.g. plate.wells[0:3, [1]]
        v = dec(op["volumes"])
        if op.get("vform") and isinstance(v, list):
            # per-tip volumes as a tuple / ndarray (e.g. a column of a volume matrix); the library refuses both
            import numpy as np
            v = tuple(v) if op["vform"] == "tuple" else np.array(v, dtype=float)
        args = dict(labware=lab, wells=w, labware_position=tuple(op["pos"]), tips=_tip(rt, op["tips"]),
                    volumes=v, liquid_class=op.get("lc", ""), arm=op.get("arm", 0),
                    label=op.get("label"))
        if k == "evo_dispense":
            args["compositions"] = _comps(op)
            return wl.evo_dispense(**args)
        return wl.evo_aspirate(**args)
    if k == "evo_wash":
        return wl.evo_wash(tips=_tip(rt, op["tips"]), waste_location=tuple(op["waste"]),
                           cleaner_location=tuple(op["cleaner"]), **(op.get("kw") or {}))
    if k == "comment":
        return wl.comment(op["text"])
    if k == "bulk_comment":
        # a long protocol: n numbered comments, each padded to a given length
        for j in range(op["n"]):
            wl.comment(f"{op['text']}{j}".ljust(op.get("width", 0), "."))
        return None
    if k == "wash":
        return wl.wash(op["scheme"]) if "scheme" in op else wl.wash()
    if k == "flush":
        return wl.flush()
    if k == "commit":
        return wl.commit()
    if k == "decontaminate":
        return wl.decontaminate()
    if k == "set_diti":
        return wl.set_diti(op["index"])
    if k == "aspirate_well":
        return wl.aspirate_well(op["rack"], op["pos"], dec(op["volume"]), **_kw(rt, op))
    if k == "dispense_well":
        return wl.dispense_well(op["rack"], op["pos"], dec(op["volume"]), **_kw(rt, op))
    if k == "reagent_distribution":
        return wl.reagent_distribution(op["src_rack"], op["ss"], op["se"], op["dst_rack"], op["ds"], op["de"],
                                       volume=dec(op["volume"]), **_kw(rt, op))
    if k == "set_limits":
        # the limits are public attributes: a script may tighten or widen them after construction
        labs[op["lab"]].min_volume = dec(op["min"])
        labs[op["lab"]].max_volume = dec(op["max"])
        return None
    if k == "save_main":
        # an explicit save to the worklist's own path in the middle of the with block (a checkpoint on disk)
        return wl.save(wl.filepath)
    if k == "set_wl_max":
        # `max_volume` is a public attribute of the worklist: a script may change it after construction (other tips)
        wl.max_volume = dec(op["value"])
        return None
    if k == "construct":
        # the script builds one more labware (not part of the world); the new object is handed to the oracle
        from .world import build_labware
        return build_labware(rt, op["spec"])
    if k == "append_raw":
        return wl.append(op["record"])
    if k == "clear":
        return wl.clear()
    if k == "set_record":
        if len(wl):
            wl[op["index"] % len(wl)] = op["record"]
        return None
    if k == "del_record":
        if len(wl):
            del wl[op["index"] % len(wl)]
        return None
    raise ValueError(f"unknown op {k}")


# ----------------------------------------------------------------------------- model-side plan
def _flat_wells(geo, w):
    ids = flatten_f(w)
    out = []
    for wid in ids:
        try:
            out.append(geo.real(wid))
        except KeyError:
            raise PlanInvalid(f"unknown well {wid!r}")
    return ids, out


def _flat_vols(v):
    vals = [dec(x) for x in flatten_f(v)]
    for x in vals:
        if not isinstance(x, (int, float)) or isinstance(x, bool):
            raise PlanInvalid("non-numeric volume")
        if x != x or x < 0:
            raise PlanInvalid("negative or NaN volume")
    return vals


def plan(op, geos, lenient_comps=False):
    """-> dict(kind, steps, ...)

    steps: nominal sequence of ("rm", lab_index, real_well, volume_float) and
           ("add", lab_index, real_well, volume_float, comp) where comp is a dict of floats, None
           (unknown) or ("from", lab_index, real_well) for liquid taken from another well.
    transfer additionally: "triples": [(src_real, dst_real, volume_float, src_id, dst_id)].
    Raises PlanInvalid for malformed arguments.
    """
    k = op["op"]
    if k in ("add", "dispense", "remove", "aspirate", "evo_aspirate", "evo_dispense"):
        li = op["lab"]
        ids, wells = _flat_wells(geos[li], op["wells"])
        vols = _flat_vols(op["volumes"])
        vols = broadcast(vols, len(wells))
        if len(vols) != len(wells):
            raise PlanInvalid("lengths")
        steps = []
        if k in ("remove", "aspirate", "evo_aspirate"):
            for w, v in zip(wells, vols):
                steps.append(("rm", li, w, v))
        else:
            comps = _comps(op)
            if comps is not None and len(comps) != len(wells):
                if not lenient_comps:
                    raise PlanInvalid("compositions length")
                # the call was accepted although the compositions do not pair up with the wells: what it has to
                # add to which well is still well-defined (the volumes), only the content is not
                comps = None
            for i, (w, v) in enumerate(zip(wells, vols)):
                steps.append(("add", li, w, v, comps[i] if comps is not None else None))
        return {"kind": k, "steps": steps, "ids": ids}
    if k == "transfer":
        si, di = op["src"], op["dst"]
        sids, sw = _flat_wells(geos[si], op["sw"])
        dids, dw = _flat_wells(geos[di], op["dw"])
        vols = _flat_vols(op["volumes"])
        n = max(len(sw), len(dw), len(vols))
        sw, sids = broadcast(sw, n), broadcast(sids, n)
        dw, dids = broadcast(dw, n), broadcast(dids, n)
        vols = broadcast(vols, n)
        if not (len(sw) == len(dw) == len(vols)):
            raise PlanInvalid("lengths")
        steps = []
        triples = []
        for s, d, v, sid, did in zip(sw, dw, vols, sids, dids):
            triples.append((s, d, v, sid, did))
            if v > 0:
                steps.append(("rm", si, s, v))
                steps.append(("add", di, d, v, ("from", si, s)))
        return {"kind": k, "steps": steps, "triples": triples}
    if k == "distribute":
        si, di = op["src"], op["dst"]
        gs = geos[si]
        if not gs.trough:
            raise PlanInvalid("source is not a trough")
        col = op["col"]
        if not isinstance(col, int) or not 0 <= col < gs.cols:
            raise PlanInvalid("column")
        dids, dw = _flat_wells(geos[di], op["dw"])
        if not dw:
            raise PlanInvalid("no destination")
        v = dec(op["volume"])
        if not isinstance(v, (int, float)) or v != v or v < 0:
            raise PlanInvalid("volume")
        steps = [("rm", si, (0, col), v * len(dw))]
        for w in dw:
            steps.append(("add", di, w, v, ("from", si, (0, col))))
        return {"kind": k, "steps": steps, "n_dst": len(dw), "dids": dids}
    return {"kind": k, "steps": []}


def addressed(pl):
    """set of (lab_index, real_well) an operation addresses."""
    return {(s[1], s[2]) for s in pl["steps"]}


def net_per_well(pl):
    """(lab, well) -> (sum_adds, sum_removes) in exact arithmetic."""
    out = {}
    for s in pl["steps"]:
        a, r = out.get((s[1], s[2]), (Fraction(0), Fraction(0)))
        if s[0] == "add":
            a += frac(s[3])
        else:
            r += frac(s[3])
        out[(s[1], s[2])] = (a, r)
    return out
