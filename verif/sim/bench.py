"""The lab bench: builds a world, steps operations through the real library, records the event log.

One Session = one replica (device) of one world.  Observation helpers return plain Python values
(never live numpy arrays) so that nothing the oracles hold can be aliased by the code under test -
except where aliasing is the thing being monitored (C11), which uses `raw_*`.
"""
import hashlib
import json

from .. import rt as rtmod
from . import ops as opsmod
from .faults import InjectedError, InjectedInterrupt, LineInjector
from .geom import Geo
from .world import build_labware, build_worklist


class Outcome:
    __slots__ = ("ok", "exc_type", "exc", "new_records", "lines", "injected", "fired_at", "result")

    def __init__(self):
        self.ok = True
        self.exc_type = None
        self.exc = None
        self.new_records = []
        self.lines = 0
        self.injected = False
        self.fired_at = None
        self.result = None


def classify(rt, exc):
    """Stable outcome class of an exception: only type information, never the message."""
    if exc is None:
        return "ok"
    if isinstance(exc, (InjectedInterrupt, InjectedError)):
        return "injected"
    if isinstance(exc, rt.VolumeOverflowError):
        return "VolumeOverflowError"
    if isinstance(exc, rt.VolumeUnderflowError):
        return "VolumeUnderflowError"
    if isinstance(exc, rt.VolumeViolationException):
        return "VolumeViolationException"
    if isinstance(exc, rt.InvalidOperationError):
        return "InvalidOperationError"
    if isinstance(exc, rt.CompatibilityError):
        return "CompatibilityError"
    return type(exc).__name__


class Session:
    def __init__(self, world, device=None, scratch=None):
        self.rt = rtmod.load()
        if not rtmod.KEEP_STATE:
            rtmod.reset_library_state()
        rtmod.set_debug_logging(bool(world.get("worklist", {}).get("debug_logging")))
        self.world = world
        self.device = device or world["device"]
        self.geos = [Geo(s) for s in world["labware"]]
        self.input_arrays = {}
        self.labs = [build_labware(self.rt, s, self.input_arrays, i) for i, s in enumerate(world["labware"])]
        import copy as _copy
        self.input_copies = {i: _copy.deepcopy(a) for i, a in self.input_arrays.items() if isinstance(i, int)}
        self.wl = build_worklist(self.rt, world, scratch=scratch, device=self.device)
        self.injected_any = False  # an exception has been injected into some operation of this run
        self.unobservable = None  # the exception with which observing a labware failed inside log_event
        self.buffers = {}  # selection objects the script reuses from call to call (ops with "wbuf")
        self.others = []  # further worklist objects the script creates and keeps alive (op "other_worklist")
        self.events = []
        self.nrec = 0
        self.step_index = 0
        self.total_lines = 0

    # ---------------------------------------------------------------- stepping
    def _other_worklist(self, op):
        """the script creates one more worklist object (another protocol step, another robot) with other settings,
        writes a comment into it and keeps it; the first worklist must not care"""
        from .geom import dec as _dec
        cls = {"evo": self.rt.EvoWorklist, "fluent": self.rt.FluentWorklist, "base": self.rt.BaseWorklist}[op.get("device", self.device)]
        other = cls(None, max_volume=_dec(op["max_volume"]), auto_split=op.get("auto_split", True), diti_mode=op.get("diti_mode", False))
        other.comment("another worklist")
        if "then_max_volume" in op:
            other.max_volume = _dec(op["then_max_volume"])
        self.others.append(other)
        return None

    def _run(self, op):
        if op["op"] == "other_worklist":
            return self._other_worklist(op)
        if op["op"] == "via_other":
            # the same labware objects, pipetted through another worklist object (another robot on the same deck)
            return opsmod.exec_op(self.rt, self.others[op["k"]], self.labs, op["inner"], self.buffers)
        return opsmod.exec_op(self.rt, self.wl, self.labs, op, self.buffers)

    def step(self, op, inject=None, trace=False):
        """Runs one operation. inject = (k, kind) raises at the k-th robotools line of this op.

        Any exception is caught and reported in the Outcome (the caller re-raises if it wants the
        exception to travel through a real `with` block)."""
        out = Outcome()
        before = len(self.wl)
        inj = None
        try:
            if inject is not None or trace:
                k, kind = inject if inject is not None else (None, "interrupt")
                inj = LineInjector(k, kind)
                with inj:
                    out.result = self._run(op)
            else:
                out.result = self._run(op)
        except BaseException as e:  # noqa: B902 - the abort, whatever class it has by now
            if isinstance(e, (SystemExit, GeneratorExit)):
                raise
            out.ok = False
            out.exc = e
        if inj is not None:
            out.lines = inj.count
            out.injected = inj.fired
            out.fired_at = inj.fired_at
            self.total_lines += inj.count
            if inj.fired:
                self.injected_any = True
            if inj.fired and out.exc is not None:
                from .faults import settle
                settle(out.exc)  # see there: finalisation of whatever the abort left suspended, inside the step
        out.exc_type = classify(self.rt, out.exc) if not out.injected else "injected"
        if op["op"] == "set_limits" and out.ok:
            from .geom import dec as _dec
            self.geos[op["lab"]].vmin = float(_dec(op["min"]))
            self.geos[op["lab"]].vmax = float(_dec(op["max"]))
        recs = list(self.wl)
        out.new_records = recs[before:] if len(recs) >= before else []
        self.log_event(op, out)
        self.step_index += 1
        return out

    def log_event(self, op, out):
        try:
            vols = tuple(self.volumes_hex(i) for i in range(len(self.labs)))
            hist = tuple(len(lab.history) for lab in self.labs)
        except Exception as e:  # noqa - observing the system under test failed; what that means is for the caller
            vols, hist = "unobservable", ()
            self.unobservable = e
        self.events.append((self.step_index, op["op"], out.exc_type if not out.ok else "ok", len(self.wl), vols, hist))

    # ---------------------------------------------------------------- observation (copies only)
    def records(self):
        return [str(r) for r in self.wl]

    def volumes(self, i):
        """dict real well -> float, read from Labware.volumes."""
        arr = self.labs[i].volumes
        lst = arr.tolist()
        g = self.geos[i]
        out = {}
        shape = (len(lst), len(lst[0]) if lst else 0)
        if shape != (g.rows, g.cols):
            raise ShapeChanged(i, shape)
        for r in range(g.rows):
            for c in range(g.cols):
                out[(r, c)] = float(lst[r][c])
        return out

    def volumes_hex(self, i):
        arr = self.labs[i].volumes
        return tuple(float(x).hex() for x in arr.flatten().tolist())

    def all_volumes(self):
        return [self.volumes(i) for i in range(len(self.labs))]

    def composition(self, i):
        """dict component -> dict real well -> float, from Labware.composition."""
        g = self.geos[i]
        out = {}
        for name, arr in self.labs[i].composition.items():
            lst = arr.tolist()
            out[name] = {(r, c): float(lst[r][c]) for r in range(g.rows) for c in range(g.cols)}
        return out

    def composition_hex(self, i):
        return tuple(
            (name, tuple(float(x).hex() for x in arr.flatten().tolist()))
            for name, arr in sorted(self.labs[i].composition.items())
        )

    def well_composition(self, i, wid):
        d = self.labs[i].get_well_composition(wid)
        return None if d is None else {k: float(v) for k, v in d.items()}

    def history(self, i):
        """list of (label, tuple-of-hex volumes)."""
        return [
            (lab, tuple(float(x).hex() for x in arr.flatten().tolist()))
            for lab, arr in self.labs[i].history
        ]

    def inputs_untouched(self):
        """the arrays the user script handed to the constructors still hold what it put there."""
        import numpy as np

        return all(np.array_equal(a, self.input_copies[i]) for i, a in self.input_arrays.items() if isinstance(i, int))

    def digest(self):
        return digest_events(self.events)


class ShapeChanged(Exception):
    pass


def raised_in_sut(exc):
    """True if the innermost frame of the exception's traceback is robotools code, i.e. an *observation*
    (volumes, history, report, composition, str, ...) of the system under test raised - that is behaviour of
    the code under test, not a fault of the harness."""
    tb = exc.__traceback__
    last = None
    while tb is not None:
        last = tb
        tb = tb.tb_next
    return last is not None and last.tb_frame.f_code.co_filename.startswith(rtmod.PKG_PREFIX)


def digest_events(events):
    h = hashlib.sha256()
    h.update(json.dumps(events, sort_keys=True, default=str).encode())
    return h.hexdigest()
