"""Self-tests of the machinery itself.

    /venv/bin/python -m verif.selftest determinism [--runs N] [--props C03,C17]
    /venv/bin/python -m verif.selftest mutants [--only name] [--props C03]
    /venv/bin/python -m verif.selftest digests --prop C03 --start 0 --stop 100 --workers 4   (helper)
"""
import argparse
import concurrent.futures as cf
import hashlib
import importlib
import json
import multiprocessing
import os
import subprocess
import sys
import time

ROOT = os.path.dirname(os.path.dirname(os.path.dirname(os.path.abspath(__file__))))


def run_digest(args):
    prop, seed, tier, index = args
    from ..check import PROPS, run_rng
    from ..props.common import Stats

    mod = importlib.import_module(PROPS[prop])
    st = Stats()
    vs = mod.explore(run_rng(seed, prop, index), tier, st)
    h = hashlib.sha256()
    h.update(json.dumps(sorted(d.hex() for d in st.digests)).encode())
    h.update(json.dumps([st.evaluations, st.crash_points, st.lines, sorted(st.faults.items())]).encode())
    h.update(json.dumps(sorted((v.clause, str(v.culprit_kind)) for v in vs)).encode())
    return index, h.hexdigest()[:16]


def digests(prop, seed, tier, start, stop, workers):
    from .. import rt

    rt.load()
    jobs = [(prop, seed, tier, i) for i in range(start, stop)]
    out = {}
    if workers <= 1:
        for j in jobs:
            i, d = run_digest(j)
            out[i] = d
    else:
        ctx = multiprocessing.get_context("fork")
        with cf.ProcessPoolExecutor(max_workers=workers, mp_context=ctx) as ex:
            for i, d in ex.map(run_digest, jobs, chunksize=5):
                out[i] = d
    return out


def sub_digests(prop, seed, tier, start, stop, workers, hashseed):
    env = dict(os.environ)
    env["PYTHONHASHSEED"] = str(hashseed)
    env["PYTHONDONTWRITEBYTECODE"] = "1"
    p = subprocess.run([sys.executable, "-m", "verif.selftest", "digests", "--prop", prop, "--seed", str(seed),
                        "--tier", tier, "--start", str(start), "--stop", str(stop), "--workers", str(workers)],
                       cwd=ROOT, env=env, capture_output=True, text=True, timeout=3600)
    for line in p.stdout.splitlines():
        if line.startswith("DIGESTS "):
            return {int(k): v for k, v in json.loads(line[8:]).items()}
    raise RuntimeError(f"digests subprocess failed: {p.stdout[-500:]} {p.stderr[-2000:]}")


def determinism(props, runs, seed):
    ok = True
    for prop in props:
        t0 = time.time()
        a = sub_digests(prop, seed, "quick", 0, runs, 1, 0)
        b = sub_digests(prop, seed, "quick", 0, runs, 16, 12345)
        c = sub_digests(prop, seed, "quick", 0, runs, 5, 99)
        # in-process, twice in the same interpreter (catches state leaking from one run into the next)
        d = digests(prop, seed, "quick", 0, min(runs, 200), 1)
        e = digests(prop, seed, "quick", 0, min(runs, 200), 1)
        bad = [i for i in range(runs) if not (a[i] == b[i] == c[i])]
        bad += [i for i in range(min(runs, 200)) if not (d[i] == e[i] == a[i])]
        print(f"{prop}: {runs} runs x (1 worker/hashseed 0, 16 workers/hashseed 12345, 5 workers/hashseed 99) + "
              f"{min(runs, 200)} x 2 in-process: {'IDENTICAL' if not bad else 'DIVERGED at runs ' + str(sorted(set(bad))[:10])} "
              f"({time.time() - t0:.0f}s)")
        sys.stdout.flush()
        ok = ok and not bad
    return 0 if ok else 1


def main():
    ap = argparse.ArgumentParser()
    ap.add_argument("cmd", choices=["determinism", "mutants", "digests"])
    ap.add_argument("--props", default="C01,C02,C03,C04,C05,C11,C16,C17")
    ap.add_argument("--prop", default="C03")
    ap.add_argument("--runs", type=int, default=2000)
    ap.add_argument("--seed", type=int, default=0)
    ap.add_argument("--tier", default="quick")
    ap.add_argument("--start", type=int, default=0)
    ap.add_argument("--stop", type=int, default=100)
    ap.add_argument("--workers", type=int, default=1)
    ap.add_argument("--only", default=None)
    ap.add_argument("--budget", type=float, default=20.0)
    ap.add_argument("--no-pytest", action="store_true")
    a = ap.parse_args()
    os.chdir(ROOT)
    if a.cmd == "digests":
        out = digests(a.prop, a.seed, a.tier, a.start, a.stop, a.workers)
        print("DIGESTS " + json.dumps(out))
        return 0
    if a.cmd == "determinism":
        return determinism(a.props.split(","), a.runs, a.seed)
    from .mutants import run_mutants

    return run_mutants(a.props.split(","), a.only, a.budget, not a.no_pytest)


if __name__ == "__main__":
    sys.exit(main())
