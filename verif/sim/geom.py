"""Model-side geometry, value codec and argument-shape helpers.

Imports nothing from robotools and does not use numpy: well IDs, column-major flattening and
the real-well aliasing of troughs are re-implemented here from the *statement* of the properties,
so that the oracles do not inherit a numbering or pairing bug of the code under test.
"""
from fractions import Fraction

ROWS = "ABCDEFGHIJKLMNOPQRSTUVWXYZ"


# ---------------------------------------------------------------- value codec (bit-exact floats)
def enc(x):
    """float -> hex string, int stays int, nested lists recursively, None/str/bool untouched."""
    if isinstance(x, bool) or x is None:
        return x
    if isinstance(x, int):
        return x
    if isinstance(x, float):
        return x.hex()
    if isinstance(x, (list, tuple)):
        return [enc(v) for v in x]
    if isinstance(x, dict):
        return {k: enc(v) for k, v in x.items()}
    if isinstance(x, str):
        return x
    raise TypeError(f"cannot encode {type(x)}")


def dec(x):
    """inverse of enc for *numeric* fields (strings are hex floats)."""
    if isinstance(x, bool) or x is None:
        return x
    if isinstance(x, int):
        return x
    if isinstance(x, str):
        return float.fromhex(x)
    if isinstance(x, list):
        return [dec(v) for v in x]
    if isinstance(x, dict):
        return {k: dec(v) for k, v in x.items()}
    raise TypeError(f"cannot decode {type(x)}")


HUGE = Fraction(10) ** 400


def frac(x):
    """exact rational of a decoded number (float or int); +-inf map to +-10**400."""
    if isinstance(x, float) and x in (float("inf"), float("-inf")):
        return HUGE if x > 0 else -HUGE
    return Fraction(x)


# ---------------------------------------------------------------- shapes
def flatten_f(x):
    """Column-major flattening of a scalar / list / list-of-rows, by explicit loops."""
    if not isinstance(x, list):
        return [x]
    if x and isinstance(x[0], list):
        nrows = len(x)
        ncols = len(x[0])
        out = []
        for c in range(ncols):
            for r in range(nrows):
                out.append(x[r][c])
        return out
    return list(x)


def broadcast(vals, n):
    return vals * n if len(vals) == 1 and n != 1 else vals


# ---------------------------------------------------------------- labware geometry from a spec
def well_id(r, c):
    return f"{ROWS[r]}{c + 1:02d}"


class Geo:
    """Geometry of one labware spec: id <-> (row, col) <-> real well."""

    def __init__(self, spec):
        self.spec = spec
        self.name = spec["name"]
        self.trough = spec["kind"] == "trough"
        self.cols = spec["cols"]
        if self.trough:
            self.idrows = spec["vrows"]
            self.rows = 1
        else:
            self.idrows = spec["rows"]
            self.rows = spec["rows"]
        self.vmin = dec(spec["min"])
        self.vmax = dec(spec["max"])
        # plates with more rows than letters: the statements define no IDs beyond row Z, so the IDs are the ones
        # the library's own `wells` array reported when the world was made (see world.resolve_tall)
        self.ids = spec.get("ids")
        self.rev = None
        if self.ids:
            self.rev = {self.ids[r][c]: (r, c) for r in range(len(self.ids)) for c in range(len(self.ids[r]))}

    def well_id(self, r, c):
        if self.ids and r < len(self.ids) and c < len(self.ids[r]):
            return self.ids[r][c]
        return well_id(r, c)

    def parse(self, wid):
        """well id -> (id_row, col); raises KeyError for ids outside the labware."""
        if self.rev is not None:
            if not isinstance(wid, str) or wid not in self.rev:
                raise KeyError(wid)
            r, c = self.rev[wid]
            if r >= self.idrows or c >= self.cols:
                raise KeyError(wid)
            return r, c
        if not isinstance(wid, str) or len(wid) < 3:
            raise KeyError(wid)
        row = wid[0]
        num = wid[1:]
        if row not in ROWS or not num.isdigit():
            raise KeyError(wid)
        r = ROWS.index(row)
        c = int(num) - 1
        if r >= self.idrows or c < 0 or c >= self.cols or wid != self.well_id(r, c):
            raise KeyError(wid)
        return r, c

    def real(self, wid):
        r, c = self.parse(wid)
        return (0, c) if self.trough else (r, c)

    def real_wells(self):
        return [(r, c) for r in range(self.rows) for c in range(self.cols)]

    def all_ids(self):
        return [self.well_id(r, c) for c in range(self.cols) for r in range(self.idrows)]

    def initial(self):
        """dict real well -> decoded initial volume (float)."""
        ini = self.spec["initial"]
        out = {}
        if self.trough:
            for c in range(self.cols):
                out[(0, c)] = float(dec(ini[c]))
        else:
            for r in range(self.rows):
                for c in range(self.cols):
                    out[(r, c)] = float(dec(ini[r][c]))
        return out

    def initial_names(self):
        """dict real well -> expected initial component name, or None when the statement is silent.

        Implements the naming rule of C05 from its text: explicit name if given; default
        `name.WELL` for plates with >= 2 rows, `name.column_NN` for troughs with >= 2 columns, the
        labware name for single-well labware.  1 x N plates (N >= 2): statement silent -> None.
        Empty wells carry no component and are absent from the result.
        """
        ini = self.initial()
        names = self.spec.get("names")
        out = {}
        for (r, c), v in ini.items():
            if v == 0:
                continue
            explicit = None
            if self.trough:
                if names is not None:
                    explicit = names[c]
            else:
                if names:
                    explicit = names.get(self.well_id(r, c))
            if explicit is not None:
                out[(r, c)] = explicit
            elif self.trough:
                out[(r, c)] = f"{self.name}.column_{c + 1:02d}" if self.cols > 1 else self.name
            else:
                if self.rows >= 2:
                    out[(r, c)] = f"{self.name}.{self.well_id(r, c)}"
                elif self.cols == 1:
                    out[(r, c)] = self.name
                else:
                    out[(r, c)] = None
        return out

    # device-specific numbering, own implementation of the rule stated in C08
    def position(self, device, wid):
        r, c = self.parse(wid)
        if self.trough and device == "fluent":
            return 1 + c
        return 1 + c * self.idrows + r

    def from_position(self, device, p):
        """position -> real well; raises KeyError if the position does not exist on this device."""
        if not isinstance(p, int):
            raise KeyError(p)
        if self.trough and device == "fluent":
            if 1 <= p <= self.cols:
                return (0, p - 1)
            raise KeyError(p)
        n = self.idrows * self.cols
        if not 1 <= p <= n:
            raise KeyError(p)
        c = (p - 1) // self.idrows
        r = (p - 1) % self.idrows
        return (0, c) if self.trough else (r, c)
