"""C02 - volume limits are enforced on every tracked operation.

Histories over every tracked entry point with rejections aimed at the limit at every call site and
sub-step, plus line-level interrupts to look at instants that are otherwise unobservable.
See DESIGN.md section 5 / C02.
"""
from fractions import Fraction

from ..sim import ops as opsmod
from ..sim.gen import Gen
from ..sim.geom import dec, frac
from ..sim.world import gen_world
from .history import Oracle, account, list_source, maybe_inject, run_history

PROP = "C02"
LEVEL = "exploration"
RULE = ("A case is one seeded history over add/remove/aspirate/dispense/transfer/distribute/evo_aspirate/"
        "evo_dispense on plates and troughs with every min/max/initial configuration; rejections are aimed at "
        "the limit (far beyond, one grid step, one ulp, inf) at a chosen element or sub-step, and about one "
        "operation in twelve is interrupted at a robotools source line. Distinct = distinct event-log digest; "
        "non-trivial = at least one accepted liquid operation and at least one fault fired.")
COMPONENTS = {"real": ["robotools.Labware/Trough", "EvoWorklist/FluentWorklist liquid methods", "evo_aspirate/evo_dispense"],
              "stub": ["user script (seeded generator)", "exact-arithmetic must-reject oracle"]}
ASSUMPTIONS = ["must-reject is demanded only beyond a 4-ulp margin (pre + v may legitimately round onto the limit)"]

LIQ = ("add", "remove", "aspirate", "dispense", "transfer", "distribute", "evo_aspirate", "evo_dispense")


def margin(lim):
    # 4 ulp of the limit's magnitude (float64)
    return Fraction(4) * Fraction(2) ** -52 * max(abs(lim), Fraction(1, 2 ** 60))


class C02Oracle(Oracle):
    PROP = PROP

    def __init__(self, world, sess, res):
        super().__init__(world, sess, res)
        self.pre = None
        self.pre_hex = None
        self.int_max = isinstance(dec(world["worklist"]["max_volume"]), int)

    def before(self, i, op):
        n = len(self.sess.labs)
        self.pre = [self.sess.volumes(j) for j in range(n)]
        self.pre_hex = [self.sess.volumes_hex(j) for j in range(n)]

    def after(self, i, op, out):
        sess = self.sess
        n = len(sess.labs)
        now = [sess.volumes(j) for j in range(n)]
        now_hex = [sess.volumes_hex(j) for j in range(n)]
        oc = out.exc_type if not out.ok else "ok"
        # ---- nonneg: always, everywhere
        for j in range(n):
            g = sess.geos[j]
            for w, v in now[j].items():
                if v != v or v < 0:
                    self.fail("C02.nonneg", i, op, oc, f"{g.name}{w} holds {v!r} after {op['op']}")
                    return
        # ---- both limit errors are VolumeViolationExceptions (the statement says so in as many words)
        if oc in ("VolumeOverflowError", "VolumeUnderflowError") and not isinstance(out.exc, sess.rt.VolumeViolationException):
            self.fail("C02.class", i, op, oc, f"{oc} is raised but is not a VolumeViolationException")
            return
        if op["op"] == "construct" and out.ok and out.result is not None:
            # "no well volume ever becomes negative": a labware that could be constructed holds no negative volume
            flat = [float(x) for x in out.result.volumes.flatten().tolist()]
            bad = [x for x in flat if x < 0]
            if bad:
                self.fail("C02.nonneg", i, op, oc, f"a labware was constructed with initial volume {bad[0]!r} in a well")
                return
        if op["op"] not in LIQ:
            for j in range(n):
                if now_hex[j] != self.pre_hex[j]:
                    self.fail("C02.frame", i, op, oc, f"{op['op']} changed volumes of labware {j}")
            return
        try:
            pl = opsmod.plan(op, sess.geos)
        except opsmod.PlanInvalid:
            pl = None
        if pl is None:
            # malformed call: no liquid may appear beyond the limits anywhere it could have touched
            labs = {op[k] for k in ("lab", "src", "dst") if k in op}
            for j in range(n):
                if j not in labs and now_hex[j] != self.pre_hex[j]:
                    self.fail("C02.frame", i, op, oc, f"{op['op']} changed labware {j} which it does not name")
            for j in labs:
                self.check_limits_changed(i, op, oc, j, now)
            return
        net = opsmod.net_per_well(pl)
        addressed = set(net)
        # ---- frame
        for j in range(n):
            g = sess.geos[j]
            if now_hex[j] == self.pre_hex[j]:
                continue
            for w in g.real_wells():
                if (j, w) not in addressed and float(now[j][w]).hex() != float(self.pre[j][w]).hex():
                    self.fail("C02.frame", i, op, oc,
                              f"{op['op']} did not address {g.name}{w} but changed it from {self.pre[j][w]!r} to {now[j][w]!r}")
                    return
        # ---- bounds: whatever happened (accepted, rejected half-way, interrupted), a well can at most have lost
        # what the call removes from it and gained what the call adds to it - in particular the offending well
        # of a rejected call and every well that is only a source (only a destination) never grows (shrinks)
        nst = len(pl["steps"])
        # (not for transfers under a non-integer worklist max_volume: there the splitter itself asks for single
        # steps above the requested volume - C06's subject, not claimed here)
        for (j, w), (a, r) in (net.items() if not (op["op"] == "transfer" and not self.int_max) else ()):
            g = sess.geos[j]
            pre = frac(self.pre[j][w])
            v = now[j][w]
            if v != v:
                continue
            m = Fraction(nst + 3) * Fraction(2) ** -50 * (abs(pre) + min(a, frac(1e300)) + min(r, frac(1e300)) + 1)
            if frac(v) > pre + a + m or frac(v) < pre - r - m:
                self.fail("C02.unchanged", i, op, oc,
                          f"{g.name}{w} went from {self.pre[j][w]!r} to {v!r} although the call adds at most {float(a)!r} "
                          f"and removes at most {float(r)!r} there (outcome {oc})", {"well": list(w)})
                return
        # ---- max / min on the wells the call added to / removed from (reported floats, no tolerance)
        for (j, w), (a, r) in net.items():
            g = sess.geos[j]
            v = now[j][w]
            pre = self.pre[j][w]
            # after a rejected / interrupted call only a well that actually rose (fell) can testify: a well
            # that started below min_volume and was left alone, or only added to, is not an offence
            if a > 0 and v > g.vmax and (out.ok or v > pre):
                self.fail("C02.max", i, op, oc,
                          f"{g.name}{w} holds {v!r} > max_volume {g.vmax!r} after liquid was added ({op['op']}, outcome {oc})",
                          {"well": list(w)})
                return
            if r > 0 and v < g.vmin and (out.ok or v < pre):
                self.fail("C02.min", i, op, oc,
                          f"{g.name}{w} holds {v!r} < min_volume {g.vmin!r} after liquid was removed ({op['op']}, outcome {oc})",
                          {"well": list(w)})
                return
        if out.injected:
            return
        # ---- must_reject: order-independent sufficient condition in exact arithmetic
        over = under = False
        over_possible = under_possible = False
        nsteps = len(pl["steps"])
        rm_wells = {(st[1], st[2]) for st in pl["steps"] if st[0] == "rm"}
        add_wells = {(st[1], st[2]) for st in pl["steps"] if st[0] == "add"}
        for (j, w), (a, r) in net.items():
            g = sess.geos[j]
            pre = frac(self.pre[j][w])
            vmax, vmin = frac(g.vmax), frac(g.vmin)
            # float slack of a sequential evaluation: a few ulp of the magnitudes involved
            m = Fraction(nsteps + 3) * Fraction(2) ** -52 * (abs(pre) + min(a, frac(1e300)) + min(r, frac(1e300)) + abs(vmax))
            if pre + a - r > vmax + m:
                over = True
            if r > 0 and pre + a - r < vmin - m:
                under = True
            if (j, w) in add_wells and pre + a > vmax - m:
                over_possible = True
            if (j, w) in rm_wells and pre - r < vmin + m:
                # (also a zero-volume removal from a well that started below min_volume: the statement
                # leaves that case open, the current code refuses it)
                under_possible = True
        if over or under:
            what = "overflow" if over and not under else "underflow" if under and not over else "overflow and underflow"
            if out.ok:
                self.fail("C02.must_reject", i, op, "ok",
                          f"{op['op']} returned normally although it must {what} a well whatever the order of its sub-steps")
                return
            is_vv = oc in ("VolumeOverflowError", "VolumeUnderflowError", "VolumeViolationException")
            if not is_vv and self.clean(op):
                self.fail("C02.class", i, op, oc,
                          f"{op['op']} that must {what} raised {oc}, not a VolumeViolationException")
                return
        # direction: an Underflow needs some removal that can reach min_volume, an Overflow some addition
        # that can reach max_volume (adds and removes budgeted separately: any order of sub-steps)
        if op["op"] == "transfer" and not self.int_max:
            # with a non-integer worklist max_volume the splitter can ask for single steps above the requested
            # volume (a defect under C06, which is not claimed here): such a spurious refusal is not judged
            return
        if oc == "VolumeUnderflowError" and not under_possible:
            self.fail("C02.class", i, op, oc, "VolumeUnderflowError although no removal of the call can reach a min_volume")
        elif oc == "VolumeOverflowError" and not over_possible:
            self.fail("C02.class", i, op, oc, "VolumeOverflowError although no addition of the call can reach a max_volume")

    def clean(self, op):
        """no other rejection reason can come first: generated valid in every other respect."""
        it = op.get("intent", "")
        if not (it.startswith("reject.underflow") or it.startswith("reject.overflow")):
            return False
        if not self.int_max:
            return False
        lab = op.get("label") if op["op"] != "distribute" else (op.get("kw") or {}).get("label")
        if lab and not self.plain(lab):
            # a label with a semicolon, a line break, a tab ... may be a reason for refusal of its own
            return False
        for key in ("lab", "src", "dst"):
            if isinstance(op.get(key), int) and not self.plain(self.world["labware"][op[key]]["name"]):
                return False
        kw = {k: v for k, v in (op.get("kw") or {}).items() if k != "label"}
        for k, v in kw.items():
            # pass-through arguments in any but their plainest form (a list of tips in arbitrary order, ...) may be
            # refused for their own sake by a stricter library
            if k == "tip" and not (isinstance(v, int) and not isinstance(v, bool)) and not isinstance(v, dict):
                return False
            if k in ("liquid_class", "rack_id", "rack_type", "tube_id", "src_rack_id", "dst_rack_id", "src_rack_type", "dst_rack_type") and not (v == "" or self.plain(v)):
                return False
        if op["op"] == "transfer" and op.get("wash", 1) is None:
            return False
        if op["op"] in ("transfer",) and not self.world["worklist"]["auto_split"]:
            return False
        if op["op"] in ("evo_aspirate", "evo_dispense"):
            # wells or tips in another than ascending order are (wells) or may be (tips) a reason for refusal of
            # their own; which of two reasons is reported first is the implementation's choice
            w = op["wells"] if isinstance(op["wells"], list) else [op["wells"]]
            rows = [x[0] for x in w]
            tips = [int(t["tip"][1:]) if isinstance(t, dict) else t for t in (op["tips"] if isinstance(op["tips"], list) else [op["tips"]])]
            if rows != sorted(set(rows)) or tips != sorted(set(tips)) or len(tips) != len(w):
                return False
        if op["op"] == "distribute":
            # the same destination cavity named twice is accepted by the unchanged tree, but an implementation may
            # refuse such a call outright (C01 excludes it from its own quantifier): not "valid in every other respect"
            from ..sim.geom import flatten_f
            try:
                g = self.sess.geos[op["dst"]]
                real = [g.real(w) for w in flatten_f(op["dw"])]
            except KeyError:
                return False
            if len(set(real)) != len(real):
                return False
        if op["op"] in ("aspirate", "dispense", "evo_aspirate", "evo_dispense", "distribute"):
            # a single step above the worklist max_volume or the format range is refused for that reason
            return False if self.any_above(op) else True
        if self.any_above(op, 7158278):
            # beyond the format range (incl. inf): the splitter / formatter may refuse first
            return False
        return True

    @staticmethod
    def plain(text):
        """printable Latin-1 text without separators: nothing a stricter library could object to"""
        return isinstance(text, str) and ";" not in text and all(32 <= ord(ch) <= 255 and ch != "\x7f" and not 0x80 <= ord(ch) <= 0x9f for ch in text) \
            and text == text.strip()

    def any_above(self, op, lim=None):
        lim = dec(self.world["worklist"]["max_volume"]) if lim is None else lim
        from ..sim.geom import flatten_f
        key = "volume" if op["op"] == "distribute" else "volumes"
        vals = [dec(x) for x in flatten_f(op[key])]
        return any(v > lim for v in vals)

    def check_limits_changed(self, i, op, oc, j, now):
        g = self.sess.geos[j]
        for w, v in now[j].items():
            pre = self.pre[j][w]
            if float(v).hex() == float(pre).hex():
                continue
            if v > pre and v > g.vmax:
                self.fail("C02.max", i, op, oc, f"{g.name}{w} rose to {v!r} > max_volume {g.vmax!r}")
                return
            if v < pre and v < g.vmin:
                self.fail("C02.min", i, op, oc, f"{g.name}{w} fell to {v!r} < min_volume {g.vmin!r}")
                return


class Program:
    def __init__(self, rng, tier):
        self.rng = rng
        opts = {"allow_same_names": True}
        if rng.random() < 0.3:
            opts["patterns"] = ["low", "mixed", "full"]
        self.world = gen_world(rng, opts)
        self.gen = Gen(rng, self.world, {"p_comp": 0.3, "dist_dups": True})
        r = rng.random()
        self.n = rng.randint(1, 10) if r < 0.75 else rng.randint(11, 40)
        if tier == "thorough" and rng.random() < 0.2:
            self.n = rng.randint(60, 300)  # thorough tier: some very long histories
        elif tier != "thorough" and rng.random() < 0.008:
            self.n = rng.randint(110, 280)  # quick tier: the occasional very long script (more than 100 / 256 steps)
        self.p_fault = rng.choice([0.1, 0.2, 0.35, 0.5])
        self.p_int = rng.choice([0.0, 0.08, 0.15])
        self.evo = self.world["device"] == "evo"

    def set_limits(self, sess):
        """`labware.max_volume = ...` / `labware.min_volume = ...` after construction (public attributes): the
        limits that count from then on are the new ones. Never below what a well already holds."""
        from ..sim.geom import enc
        from ..sim.world import snap
        rng = self.rng
        li = rng.randrange(len(sess.geos))
        geo = sess.geos[li]
        vols = [v for v in sess.volumes(li).values() if v == v and v != float("inf")]
        top = max(vols + [0.0])
        regime = self.world["regime"]
        vmax = max(snap(geo.vmax * rng.choice([0.5, 0.8, 1.25, 2.0]), regime), top)
        if vmax < top or vmax <= 0:
            vmax = geo.vmax
        vmin = rng.choice([0.0, geo.vmin, snap(0.05 * vmax, regime), snap(0.3 * vmax, regime), snap(min(vols + [vmax]), regime)])
        if not 0 <= vmin < vmax:
            vmin = 0.0
        return {"op": "set_limits", "lab": li, "min": enc(float(vmin)), "max": enc(float(vmax))}

    def construct(self):
        """one more labware is built in the middle of the script, with one initial volume that cannot be (negative):
        the constructor must refuse, or at least not end up with a negative well."""
        import copy
        from ..sim.geom import enc
        from ..sim.world import gen_labware
        rng = self.rng
        kind = rng.choice(["plate", "plate", "trough"])
        spec = gen_labware(rng, kind, "extra", self.world["regime"], rng.choice(["small", "small", "medium"]), 7, {})
        spec = copy.deepcopy(spec)
        spec.pop("initial_dtype", None)
        ini = dec(spec["initial"])
        bad = rng.choice([-0.25, -1.0, -1e-9, -5e-324, -250.0, float("-inf")])
        if rng.random() < 0.25:
            # all wells (the scalar case is what the test suite samples)
            ini = [[bad for _ in row] for row in ini] if kind == "plate" else [bad for _ in ini]
        elif kind == "plate":
            ini[rng.randrange(len(ini))][rng.randrange(len(ini[0]))] = bad
        else:
            ini[rng.randrange(len(ini))] = bad
        spec["initial"] = enc(ini)
        if kind == "trough":
            spec["initial_as_array"] = rng.random() < 0.5
        return {"op": "construct", "spec": spec}

    def source(self, i, sess):
        if i >= self.n:
            return None
        rng, g = self.rng, self.gen
        if rng.random() < 0.03:
            return self.construct()
        fault = rng.random() < self.p_fault
        r = rng.random()
        kinds = ["add", "remove", "aspirate", "dispense", "transfer", "transfer", "distribute"]
        if self.evo:
            kinds += ["evo_aspirate", "evo_dispense"]
        kind = rng.choice(kinds)
        op = None
        for gg, sg in zip(g.geos, sess.geos):
            gg.vmin, gg.vmax = sg.vmin, sg.vmax  # limits may have been reassigned (set_limits)
        if r < 0.03:
            op = g.gen_misc()
        elif r < 0.05:
            op = self.set_limits(sess)
        elif fault and rng.random() < 0.12:
            op = g.gen_invalid(sess)
        elif kind in ("add", "remove", "aspirate", "dispense"):
            intent = "ok"
            if fault:
                intent = "reject.underflow" if kind in ("remove", "aspirate") else "reject.overflow"
            op = g.gen_addremove(sess, kind, intent=intent)
        elif kind == "transfer":
            intent = rng.choice(["reject.underflow", "reject.overflow"]) if fault else "ok"
            op = (g.gen_chain_transfer(sess, intent) if fault and rng.random() < 0.1 else None) or g.gen_transfer(sess, intent)
        elif kind == "distribute":
            intent = rng.choice(["reject.underflow", "reject.overflow"]) if fault else "ok"
            op = g.gen_distribute(sess, intent) or g.gen_transfer(sess, intent)
        else:
            intent = "ok"
            if fault:
                intent = "reject.underflow" if kind == "evo_aspirate" else "reject.overflow"
            op = g.gen_evo(sess, kind, intent=intent, canonical=rng.random() < 0.9)
        if op["op"] in LIQ:
            maybe_inject(rng, op, self.p_int)
        return op


def explore(rng, tier, stats):
    prog = Program(rng, tier)
    res = run_history(prog.world, prog.source, C02Oracle)
    if any(o["op"] == "set_limits" for o in res.ops):
        stats.probes["limits_reassigned"] += 1
    account(stats, prog.world, res, PROP)
    return res.violations


def replay(spec):
    return run_history(spec["world"], list_source(spec["ops"]), C02Oracle)
