#!/bin/bash
# Confirms a seeded change delivered in a scratch worktree and files it under /verif/seeded/<id>/.
# usage: tools_ingest.sh /tmp/seed-C16-a C16-a
wt=$1; id=$2
set -u
cd $wt || exit 2
test -f seeded/patch.diff -a -f seeded/demo.py -a -f seeded/meta.json || { echo "deliverables missing"; ls seeded; exit 2; }
# regenerate the patch from the worktree state (source files only)
git -C $wt diff -- robotools > /tmp/ingest-$id.diff
test -s /tmp/ingest-$id.diff || { echo "no source change in worktree"; exit 2; }
if git -C $wt diff --name-only | grep -q "test_"; then echo "REJECT: test files were edited"; exit 1; fi
echo "--- pytest with change"
/venv/bin/python -m pytest -q -p no:cacheprovider --timeout=900 2>&1 | tail -1
rc_test=${PIPESTATUS[0]}
echo "--- demo with change"
/venv/bin/python seeded/demo.py > /tmp/ingest-$id.with 2>&1; rc_with=$?
tail -5 /tmp/ingest-$id.with
git -C $wt apply -R /tmp/ingest-$id.diff
echo "--- demo without change"
/venv/bin/python seeded/demo.py > /tmp/ingest-$id.without 2>&1; rc_without=$?
tail -3 /tmp/ingest-$id.without
git -C $wt apply /tmp/ingest-$id.diff
echo "pytest_rc=$rc_test demo_with_rc=$rc_with demo_without_rc=$rc_without"
if [ $rc_test -ne 0 ] || [ $rc_with -eq 0 ] || [ $rc_without -ne 0 ]; then echo "REJECT"; exit 1; fi
dst=/verif/seeded/$id
mkdir -p $dst
cp /tmp/ingest-$id.diff $dst/patch.diff
sed "s#\"$wt/\"#__import__('os').environ.get('ROBOTOOLS_REPO', '/repo')#; s#'$wt/'#__import__('os').environ.get('ROBOTOOLS_REPO', '/repo')#; s#\"$wt\"#__import__('os').environ.get('ROBOTOOLS_REPO', '/repo')#; s#'$wt'#__import__('os').environ.get('ROBOTOOLS_REPO', '/repo')#" seeded/demo.py > $dst/demo.py
cp seeded/meta.json $dst/meta.agent.json
cp /tmp/ingest-$id.with $dst/demo.with.txt; cp /tmp/ingest-$id.without $dst/demo.without.txt
echo "ACCEPTED -> $dst"
