"""Loads the system under test (robotools) from the working tree named by VERIF_REPO.

Everything in /verif that needs real robotools code goes through `load()`, exactly once per
process.  The model side (ledger, robot, geometry) never imports this module.
"""
import logging
import os
import sys
import warnings

REPO = os.path.realpath(os.environ.get("VERIF_REPO", "/repo"))
PKG_PREFIX = os.path.join(REPO, "robotools") + os.sep

_rt = None


class HarnessError(Exception):
    """A fault of the verification machinery itself (never a VIOLATION, never a pass)."""


def load():
    global _rt
    if _rt is not None:
        return _rt
    sys.dont_write_bytecode = True
    if not sys.path or sys.path[0] != REPO:
        sys.path.insert(0, REPO)
    # Library warnings (deprecations, numpy 0/0) must never abort or pollute a run.
    warnings.simplefilter("ignore")
    lg = logging.getLogger("robotools")
    lg.setLevel(logging.CRITICAL)
    lg.addHandler(logging.NullHandler())
    lg.propagate = False
    import robotools  # noqa

    f = os.path.realpath(robotools.__file__)
    if not f.startswith(PKG_PREFIX):
        raise HarnessError(f"robotools imported from {f}, expected under {PKG_PREFIX}")
    _rt = robotools
    return robotools


_cached_functions = None


def clear_function_caches():
    """Empties every functools cache (lru_cache / cache wrappers) found in the modules of the system under test.

    The k-th executed line of an operation is the coordinate of an injected interrupt; a memoised helper executes
    fewer lines when its cache is warm, so without this the same recorded script would be interrupted at another
    place on replay than during exploration. Emptying a functools cache never changes what a correct program
    computes. Called at the start of every simulated run (Session construction)."""
    global _cached_functions
    if _cached_functions is None:
        found = []
        for name, mod in list(sys.modules.items()):
            if mod is None or not (name == "robotools" or name.startswith("robotools.")):
                continue
            for obj in list(vars(mod).values()):
                objs = [obj]
                if isinstance(obj, type):
                    objs += list(vars(obj).values())
                for o in objs:
                    o = getattr(o, "__func__", o)
                    if callable(getattr(o, "cache_clear", None)) and o not in found:
                        found.append(o)
        _cached_functions = found
    for f in _cached_functions:
        try:
            f.cache_clear()
        except Exception:  # noqa
            pass


def set_debug_logging(on):
    """the user script's logging configuration: DEBUG for the library's loggers (records go to a null handler) or,
    by default, nothing below CRITICAL. A knob of the world, set at the start of every simulated run."""
    logging.getLogger("robotools").setLevel(logging.DEBUG if on else logging.CRITICAL)


KEEP_STATE = False  # True while a recorded script is executed once more "in the same process" (warm-up replays)
_state_snapshot = None


def _containers(owner):
    out = {}
    for name, val in list(vars(owner).items()):
        if name.startswith("__"):
            continue
        if isinstance(val, (dict, list, set)):
            out[name] = val
    return out


def reset_library_state():
    """Puts the Python-level state of the library's modules and classes back to what it was right after import:
    functools caches emptied, module-level and class-level dicts / lists / sets restored (in place), containers that
    appeared later removed. Every simulated run thereby starts in a library that has not been used before - runs are
    independent of each other and of which worker process they happen to be executed in. A defect that lives in
    such state is still found, reproducibly: one run in twenty executes its recorded script a second time *without*
    this reset (see check._worker), which is what `"warmup": n` in a replay file means."""
    global _state_snapshot
    import copy

    clear_function_caches()
    if _state_snapshot is None:
        snap = []
        for name, mod in list(sys.modules.items()):
            if mod is None or not (name == "robotools" or name.startswith("robotools.")):
                continue
            snap.append((mod, {k: copy.deepcopy(v) for k, v in _containers(mod).items()}))
            for obj in list(vars(mod).values()):
                if isinstance(obj, type) and str(getattr(obj, "__module__", "")).startswith("robotools"):
                    try:
                        snap.append((obj, {k: copy.deepcopy(v) for k, v in _containers(obj).items()}))
                    except Exception:  # noqa
                        pass
        _state_snapshot = snap
        return
    for owner, saved in _state_snapshot:
        try:
            cur = _containers(owner)
        except Exception:  # noqa
            continue
        for k, v in cur.items():
            if k not in saved:
                if k.startswith("_"):
                    try:
                        delattr(owner, k)
                    except Exception:  # noqa
                        pass
                continue
            s = saved[k]
            if type(v) is type(s) and v != s:
                try:
                    if isinstance(v, dict):
                        v.clear()
                        v.update(copy.deepcopy(s))
                    elif isinstance(v, list):
                        v[:] = copy.deepcopy(s)
                    else:
                        v.clear()
                        v.update(copy.deepcopy(s))
                except Exception:  # noqa
                    pass
        for k, s in saved.items():
            if k not in cur:
                try:
                    setattr(owner, k, copy.deepcopy(s))
                except Exception:  # noqa
                    pass
