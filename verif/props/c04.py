"""C04 - exact volume bookkeeping per real well, including trough aliasing.

Long histories of add/remove (direct and through aspirate/dispense of both devices) on every
geometry and argument shape, with rejections interleaved; lock-step exact ledger.
See DESIGN.md section 5 / C04.
"""
from fractions import Fraction

from ..sim import ops as opsmod
from ..sim.gen import Gen
from ..sim.geom import dec, frac
from ..sim.ledger import Ledger
from ..sim.world import gen_world
from .history import Oracle, account, list_source, run_history

PROP = "C04"
LEVEL = "exploration"
RULE = ("A case is one seeded history: a world (1-4 plates/troughs, every geometry class) and 1-60 add/remove/"
        "aspirate/dispense/transfer/distribute calls with scalar, list (with repeats and trough aliases) and 2-D array arguments, "
        "about one call in six aimed to be rejected at a chosen element. Distinct = distinct event-log digest; "
        "non-trivial = at least one accepted liquid call and at least one rejection fired.")
COMPONENTS = {"real": ["robotools.Labware/Trough", "robotools.EvoWorklist/FluentWorklist.aspirate/dispense"],
              "stub": ["user script (seeded generator)", "ledger (exact reference model)"]}
ASSUMPTIONS = ["quarter regime: exact equality; other regimes: relative 1e-9 float slack"]


def tol(world, v):
    """exact on the quarter grid (binary-exact sums); relative float slack everywhere else."""
    if world["regime"] == "quarter" and v.denominator in (1, 2, 4):
        return Fraction(0)
    return Fraction(1, 10 ** 9) * max(1, abs(v))


class C04Oracle(Oracle):
    PROP = PROP

    def __init__(self, world, sess, res):
        super().__init__(world, sess, res)
        self.ledger = Ledger(world["labware"], exact_grid=world["regime"] == "quarter")
        self.prev_hex = [sess.volumes_hex(i) for i in range(len(sess.labs))]
        self.band = Fraction(1, 10 ** 6)

    def flat_index(self, li, w):
        g = self.sess.geos[li]
        return w[0] * g.cols + w[1]

    def after(self, i, op, out):
        sess = self.sess
        nl = len(sess.labs)
        now_hex = [sess.volumes_hex(j) for j in range(nl)]
        now = [sess.volumes(j) for j in range(nl)]
        kind = op["op"]
        if kind not in ("add", "remove", "aspirate", "dispense", "transfer", "distribute", "evo_aspirate", "evo_dispense"):
            # non-liquid operation: nothing may move
            for j in range(nl):
                if now_hex[j] != self.prev_hex[j]:
                    self.fail("C04.frame", i, op, out.exc_type, f"{kind} changed volumes of labware {j}")
                    self.ledger.adopt(j, now[j])
            self.prev_hex = now_hex
            return
        named = {op[k] for k in ("lab", "src", "dst") if k in op}
        try:
            pl = opsmod.plan(op, sess.geos)
        except opsmod.PlanInvalid:
            pl = None
            if out.ok:
                try:
                    pl = opsmod.plan(op, sess.geos, lenient_comps=True)
                except opsmod.PlanInvalid:
                    pl = None
        # ---- frame: labware not named by the call
        for j in range(nl):
            if j not in named and now_hex[j] != self.prev_hex[j]:
                self.fail("C04.frame", i, op, out.exc_type, f"{kind} on labware {sorted(named)} changed labware {j}")
                self.ledger.adopt(j, now[j])
        if pl is None:
            # malformed arguments: only the named labware may have changed; resynchronise them
            for j in named:
                if 0 <= j < nl:
                    self.ledger.adopt(j, now[j])
            self.prev_hex = now_hex
            return
        addressed = opsmod.addressed(pl)
        for li in named:
            g = sess.geos[li]
            for w in g.real_wells():
                if (li, w) not in addressed:
                    k = self.flat_index(li, w)
                    if now_hex[li][k] != self.prev_hex[li][k]:
                        self.fail("C04.frame", i, op, out.exc_type,
                                  f"{kind} did not address {g.name}{w} but its volume changed from "
                                  f"{float.fromhex(self.prev_hex[li][k])} to {float.fromhex(now_hex[li][k])}")
        steps = pl["steps"]
        on_grid = all(frac(st[3]).denominator <= 4 for st in steps)
        if out.ok:
            # accepted call: every requested element is booked, whatever the limits say
            for st in steps:
                self.ledger.apply_step(st)
            for (li, w) in sorted(addressed):
                g = sess.geos[li]
                exp = self.ledger.vol[li][w]
                got = frac(now[li][w]) if now[li][w] == now[li][w] else None
                t = tol(self.world, exp) if on_grid else Fraction(1, 10 ** 9) * max(1, abs(exp))
                if got is None or abs(got - exp) > t * (1 if kind in ("add", "remove", "aspirate", "dispense", "evo_aspirate", "evo_dispense") else max(1, len(steps))):
                    self.fail("C04.ledger", i, op, "ok",
                              f"{g.name}{w}: reported {now[li][w]!r}, ledger (initial + added - removed) {float(exp)!r}",
                              {"well": list(w)})
                    # continue from the twin's state so that one wrong booking is reported once, not at every later step
                    for (lj, wj) in addressed:
                        if now[lj][wj] == now[lj][wj]:
                            self.ledger.vol[lj][wj] = frac(now[lj][wj])
                    break
                if got is not None and got != exp:
                    # within slack: continue from the float the twin actually holds (per-step exactness)
                    self.ledger.vol[li][w] = got
        elif out.injected or kind in ("transfer", "distribute"):
            # interrupted, or a rejected multi-step operation whose sub-step order is the implementation's:
            # the addressed wells may hold any partial application, but never more than the call adds to a
            # well nor less than it removes from it
            net = opsmod.net_per_well(pl)
            if kind == "transfer" and not isinstance(dec(self.world["worklist"]["max_volume"]), int):
                net = {}  # the splitter may ask for more than requested under a non-integer max_volume (C06)
            for (li, w), (a, r) in net.items():
                pre = self.ledger.vol[li][w]
                v = now[li][w]
                if v != v:
                    continue
                m = Fraction(1, 10 ** 9) * (abs(pre) + min(a, frac(1e300)) + min(r, frac(1e300)) + 1)
                if frac(v) > pre + a + m or frac(v) < pre - r - m:
                    self.fail("C04.rejected_bounds", i, op, out.exc_type,
                              f"after the {'interrupted' if out.injected else 'rejected'} {kind}, {sess.geos[li].name}{w} holds {v!r}: "
                              f"it held {float(pre)!r}, the call adds at most {float(a)!r} and removes at most {float(r)!r} there")
                    break
        else:
            # rejected call: the addressed wells hold the prefix before the offending element, or nothing
            li = op["lab"]
            g = sess.geos[li]
            wells = {w for (_, w) in addressed}
            verdict, k = self.simulate(li, steps)
            allowed = None
            if verdict == "reject":
                allowed = {0, k}
            cur = dict(self.ledger.vol[li])
            states = [dict(cur)]
            for st in steps:
                v = frac(st[3])
                cur[st[2]] = cur[st[2]] - v if st[0] == "rm" else cur[st[2]] + v
                states.append(dict(cur))
            match = None
            for j, stt in enumerate(states):
                if all(now[li][w] == now[li][w] and abs(frac(now[li][w]) - stt[w]) <= tol(self.world, stt[w])
                       for w in wells):
                    if allowed is None or j in allowed:
                        match = j
                        break
                    if match is None:
                        match = -1 - j
            if match is None or match < 0:
                what = "no prefix of the call" if match is None else f"prefix of length {-1 - match} (expected 0 or {k})"
                self.fail("C04.rejected_partial", i, op, out.exc_type,
                          f"after the rejected {kind} the addressed wells of {g.name} hold {what}",
                          {"k": k})
        # narrow resynchronisation of the addressed wells only
        if not out.ok:
            for (li, w) in addressed:
                if now[li][w] == now[li][w]:
                    self.ledger.vol[li][w] = frac(now[li][w])
        self.prev_hex = now_hex

    def simulate(self, li, steps):
        """first step the exact model rejects (outside the float ambiguity band), on a scratch copy."""
        import copy

        saved = copy.deepcopy(self.ledger.vol[li])
        try:
            for k, st in enumerate(steps):
                r = self.ledger.check_step(st, self.band)
                if r == "ambiguous":
                    return "ambiguous", k
                if r == "reject":
                    return "reject", k
                v = frac(st[3])
                self.ledger.vol[li][st[2]] += -v if st[0] == "rm" else v
            return "ok", None
        finally:
            self.ledger.vol[li] = saved


class Program:
    def __init__(self, rng, tier):
        self.rng = rng
        self.world = gen_world(rng, {"integer_max_volume": True, "allow_same_names": True})
        self.gen = Gen(rng, self.world, {"p_comp": 0.2, "dist_dups": True})
        r = rng.random()
        self.n = rng.randint(1, 12) if r < 0.8 else rng.randint(13, 60)
        if tier == "thorough" and rng.random() < 0.2:
            self.n = rng.randint(60, 300)  # thorough tier: some very long histories
        elif tier != "thorough" and rng.random() < 0.008:
            self.n = rng.randint(110, 280)  # quick tier: the occasional very long script (more than 100 / 256 steps)
        self.p_fault = rng.choice([0.0, 0.1, 0.17, 0.17, 0.3])

    def sweep(self, sess):
        """the same small volume taken from (or given to) every well of every labware, one call per labware with the
        whole `labware.wells` matrix - many wells per call, on labware of different geometry, within one script"""
        from ..sim.geom import enc
        from ..sim.world import snap_down
        rng, g = self.rng, self.gen
        kind = rng.choice(["remove", "aspirate", "add", "dispense"])
        out = []
        for li, geo in enumerate(g.geos):
            if geo.idrows * geo.cols > 400:
                continue
            cur = g.vols(sess, li)
            if kind in ("remove", "aspirate"):
                h = min((v - geo.vmin) / (geo.idrows if geo.trough else 1) for v in cur.values())
            else:
                h = min((geo.vmax - v) / (geo.idrows if geo.trough else 1) for v in cur.values())
            v = snap_down(min(max(h, 0.0) * rng.uniform(0.1, 0.9), g.wl_max), g.regime)
            wells = [[geo.well_id(r, c) for c in range(geo.cols)] for r in range(geo.idrows)]
            out.append({"op": kind, "lab": li, "wells": wells, "volumes": enc(float(v)), "label": "sweep", "comps": None, "intent": "ok", "wnp": True})
        return out

    def source(self, i, sess):
        if i >= self.n:
            return None
        rng = self.rng
        g = self.gen
        if getattr(self, "queue", None):
            return self.queue.pop(0)
        if rng.random() < 0.02:
            self.queue = self.sweep(sess)
            if self.queue:
                return self.queue.pop(0)
        r = rng.random()
        if r < 0.04:
            return g.gen_misc()
        if r < 0.055:
            op = g.gen_self_volumes(sess)
            if op is not None:
                return op
        kind = rng.choice(["add", "remove", "aspirate", "dispense", "add", "remove", "transfer", "distribute"])
        if self.world["device"] == "evo" and rng.random() < 0.12:
            ek = rng.choice(["evo_aspirate", "evo_dispense"])
            intent = "ok"
            if rng.random() < self.p_fault:
                intent = "reject.underflow" if ek == "evo_aspirate" else "reject.overflow"
            return g.gen_evo(sess, ek, intent=intent, canonical=rng.random() < 0.9)
        if kind == "transfer":
            intent = rng.choice(["reject.underflow", "reject.overflow"]) if rng.random() < self.p_fault else "ok"
            return g.gen_transfer(sess, intent)
        if kind == "distribute":
            intent = rng.choice(["reject.underflow", "reject.overflow"]) if rng.random() < self.p_fault else "ok"
            d = g.gen_distribute(sess, intent)
            if d is not None:
                return d
            kind = "add"
        if rng.random() < self.p_fault:
            if rng.random() < 0.2:
                op = g.gen_invalid(sess)
                if op["op"] in ("aspirate", "dispense"):
                    return op
            intent = "reject.underflow" if kind in ("remove", "aspirate") else "reject.overflow"
            return g.gen_addremove(sess, kind, intent=intent)
        return g.gen_addremove(sess, kind, intent="ok")


def explore(rng, tier, stats):
    prog = Program(rng, tier)
    res = run_history(prog.world, prog.source, C04Oracle)
    account(stats, prog.world, res, PROP)
    return res.violations


def replay(spec):
    return run_history(spec["world"], list_source(spec["ops"]), C04Oracle)
