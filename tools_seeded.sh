#!/bin/bash
# Runs the quick checks against one seeded change, on a scratch copy of /repo (so that /repo itself and any
# background run that uses it are never disturbed); the copy is removed afterwards.
# usage: tools_seeded.sh seeded/<id> [budget_s] [props...]
#        APPLY_TO_REPO=1 tools_seeded.sh ...   -> the brief's way: git -C /repo apply, run, git -C /repo checkout -- .
d=$1; budget=${2:-30}; shift; shift
props=${@:-C01 C02 C03 C04 C05 C11 C16 C17}
patch="$(realpath $d/patch.diff)"
test -f "$patch" || { echo "no patch in $d"; exit 2; }
if [ -n "$APPLY_TO_REPO" ]; then
  if ! git -C /repo diff --quiet; then echo "/repo has local changes - refusing"; exit 2; fi
  git -C /repo apply "$patch" || { echo "patch does not apply"; exit 2; }
  trap 'git -C /repo checkout -- . ; echo "[/repo restored]"' EXIT
  target=/repo
else
  target=/dev/shm/rtcopy-seeded-$$
  rm -rf $target; mkdir -p $target
  rsync -a --exclude .git --exclude __pycache__ --exclude notebooks --exclude docs /repo/ $target/
  (cd $target && patch -p1 -s < "$patch") || { echo "patch does not apply"; rm -rf $target; exit 2; }
  trap 'rm -rf $target' EXIT
fi
for p in $props; do
  out=$(VERIF_REPO=$target /venv/bin/python -m verif.check $p --tier quick --budget $budget --no-evidence 2>&1)
  rc=$?
  cl=$(echo "$out" | grep '^# clause' | sed 's/^# clause=\([^ ]*\) culprit_op=\([^ ]*\).*/\1@\2/' | sort -u | tr '\n' ' ')
  echo "$(basename $d) $p rc=$rc $cl"
done
