"""Runs the quick checks against every seeded change (on scratch copies of /repo) and writes
seeded/<id>/meta.json and seeded/RESULTS.md.
usage: /venv/bin/python tools_seeded_matrix.py [budget_s] [ids...]
       MATRIX_JOBS=4 MATRIX_WORKERS=4 ...   four changes at a time, four worker processes per check
       OTHER_BUDGET=6 ...   budget for the checks of the properties the change was *not* written against (0: not run)
Each check stops handing out runs once it has a violation (--stop-at-first), then shrinks and verifies the replay."""
import json, os, subprocess, sys, shutil, time

ROOT = os.path.dirname(os.path.abspath(__file__))
PROPS = ["C01", "C02", "C03", "C04", "C05", "C11", "C16", "C17"]


def run(sid, budget):
    d = os.path.join(ROOT, "seeded", sid)
    target = f"/dev/shm/rtcopy-seeded-{sid}"
    shutil.rmtree(target, ignore_errors=True)
    subprocess.run(["rsync", "-a", "--exclude", ".git", "--exclude", "__pycache__", "--exclude", "notebooks", "--exclude", "docs", "/repo/", target + "/"], check=True)
    try:
        subprocess.run(["patch", "-p1", "-s", "-i", os.path.join(d, "patch.diff")], cwd=target, check=True)
        t = subprocess.run([sys.executable, "-m", "pytest", "-q", "-p", "no:cacheprovider", "--timeout=900"], cwd=target, capture_output=True, text=True)
        suite = t.stdout.strip().splitlines()[-1] if t.stdout.strip() else ""
        env = {**os.environ, "ROBOTOOLS_REPO": target}
        dw = subprocess.run([sys.executable, os.path.join(d, "demo.py")], cwd=target, env=env, capture_output=True, text=True)
        env0 = {**os.environ, "ROBOTOOLS_REPO": "/repo"}
        d0 = subprocess.run([sys.executable, os.path.join(d, "demo.py")], cwd="/repo", env=env0, capture_output=True, text=True)
        res = {}
        owning = sid.split("-")[0]
        other = float(os.environ.get("OTHER_BUDGET", budget))
        for p in PROPS:
            t0 = time.time()
            b = budget if p == owning else other
            if b <= 0:
                continue
            c = subprocess.run([sys.executable, "-m", "verif.check", p, "--tier", "quick", "--budget", str(b), "--no-evidence", "--stop-at-first"],
                               cwd=ROOT, env={**os.environ, "VERIF_REPO": target, "PYTHONDONTWRITEBYTECODE": "1",
                                              "VERIF_WORKERS": os.environ.get("MATRIX_WORKERS", "0")}, capture_output=True, text=True)
            clauses = sorted({ln.split("clause=")[1].split()[0] for ln in c.stdout.splitlines() if ln.startswith("# clause=")})
            res[p] = {"exit": c.returncode, "caught": c.returncode == 1 and "VIOLATION property=" in c.stdout, "clauses": clauses,
                      "wall_s": round(time.time() - t0, 1), "budget_s": b}
        agent = json.load(open(os.path.join(d, "meta.agent.json"))) if os.path.exists(os.path.join(d, "meta.agent.json")) else {}
        meta = {
            "id": sid,
            "property": agent.get("property", sid.split("-")[0]),
            "summary": agent.get("summary"),
            "needs_to_manifest": agent.get("needs"),
            "files": agent.get("files"),
            "origin": "written by an independent sub-agent that was given only the property text and a scratch worktree",
            "confirmed": {
                "repo_test_suite_with_change": suite,
                "demo_exit_with_change": dw.returncode,
                "demo_exit_without_change": d0.returncode,
                "how": "patch applied to a scratch copy of /repo under /dev/shm; pytest and seeded/<id>/demo.py run there; demo run again against /repo",
            },
            "checks": res,
            "caught_by": [p for p in PROPS if p in res and res[p]["caught"]],
            "checks_not_run": [p for p in PROPS if p not in res],
            "budget_s": budget,
            "machinery_commit": subprocess.run(["git", "-C", ROOT, "rev-parse", "--short", "HEAD"], capture_output=True, text=True).stdout.strip(),
            "workers_per_check": os.environ.get("MATRIX_WORKERS", "16"),
        }
        json.dump(meta, open(os.path.join(d, "meta.json"), "w"), indent=1)
        return meta
    finally:
        shutil.rmtree(target, ignore_errors=True)


def main():
    budget = float(sys.argv[1]) if len(sys.argv) > 1 else 20
    ids = sys.argv[2:] or sorted(x for x in os.listdir(os.path.join(ROOT, "seeded")) if os.path.isdir(os.path.join(ROOT, "seeded", x)))
    jobs = int(os.environ.get("MATRIX_JOBS", "1"))  # changes processed concurrently (MATRIX_WORKERS workers per check)
    import concurrent.futures as cf
    with cf.ThreadPoolExecutor(max_workers=jobs) as ex:
        for sid, m in zip(ids, ex.map(lambda x: run(x, budget), ids)):
            print(sid, m["confirmed"]["repo_test_suite_with_change"], m["confirmed"]["demo_exit_with_change"],
                  m["confirmed"]["demo_exit_without_change"], m["caught_by"], flush=True)
    lines = ["# Seeded changes vs checks", "", "| id | breaks | needs | repo suite | demo with/without | caught by (quick tier) |", "|---|---|---|---|---|---|"]
    for sid in sorted(x for x in os.listdir(os.path.join(ROOT, "seeded")) if os.path.isfile(os.path.join(ROOT, "seeded", x, "meta.json"))):
        m = json.load(open(os.path.join(ROOT, "seeded", sid, "meta.json")))
        c = m["confirmed"]
        cb = ", ".join(f"{p} ({', '.join(m['checks'][p]['clauses'][:3])})" for p in m["caught_by"]) or "**none**"
        lines.append(f"| {sid} | {m['property']} | {(m.get('needs_to_manifest') or '')[:160]} | {c['repo_test_suite_with_change']} | {c['demo_exit_with_change']}/{c['demo_exit_without_change']} | {cb} |")
    open(os.path.join(ROOT, "seeded", "RESULTS.md"), "w").write("\n".join(lines) + "\n")


if __name__ == "__main__":
    main()
