"""Regenerates MANIFEST.json from the list of built checks (run: /venv/bin/python tools_manifest.py)."""
import json
import os

ROOT = os.path.dirname(os.path.abspath(__file__))

NA = {
    "C06": "pure function of (volume, max_volume): partition_volume and the split count involve no history, fault, I/O or second party for a simulator to own (DESIGN.md section 6)",
    "C07": "the A-D-wash discipline and pairing rules of one transfer call are a function of that call's arguments only; no schedule, fault or state across calls (DESIGN.md section 6)",
    "C08": "well numbering and the id/index/position bijections are pure functions of the geometry (DESIGN.md section 6)",
    "C09": "field placement, validation and formatting of each emitter are functions of its arguments; the only history-dependent clause (set_diti after a break) is a one-record look-behind, not a schedule (DESIGN.md section 6)",
    "C10": "tip -> bit-mask encoding is a pure function of the tip argument (DESIGN.md section 6)",
    "C12": "the EVO selection string is a pure function of (rows, columns, subset) (DESIGN.md section 6)",
    "C13": "agreement of one evo_aspirate/evo_dispense command with the tracking of the same call, and evo_wash parameter order, are functions of that call's arguments; a consequence of a mismatch is visible to C03 and is reported there (DESIGN.md section 6)",
    "C14": "DilutionPlan construction is pure and to_worklist is a fixed deterministic composition of transfers determined by the plan arguments (DESIGN.md section 6)",
    "C15": "shift/rotate/randomise are pure bijections; randomisation uses a private RandomState(seed), so there is no global RNG, hash-order or clock for a simulator to control (DESIGN.md section 6)",
    "C18": "partition_by_column / optimize_partition_by are pure functions of their arguments (DESIGN.md section 6)",
    "C19": "get_trough_wells is a pure function of (n, wells) (DESIGN.md section 6)",
    "C20": "constructor validation and initial layout are functions of the constructor arguments only (DESIGN.md section 6)",
}

CHECKS = {
    "C03": dict(
        level="fault_enumeration",
        text="Seeded simulation of programs inside a real `with Worklist(path)` block on a real scratch file system, with one terminal fault per execution: every kind of rejection aimed at a chosen sub-step, or an exception injected (sys.settrace) at a chosen robotools source line of the terminal operation - every line in the thorough tier. An independent robot interpreter replays the record list after every operation and the file written by the real __exit__. Sampling over programs, enumeration over crash points within a program; evidence, not proof.",
        note="Trusted: the robot interpreter (verif/sim/robot.py) as the meaning of A/D/R/B; records, per-record 0.005 rounding slack in the free-float regime; CPython's settrace line events as the set of crash points; undecodable records are counted and end the replay clauses for that run (decoding is C01's subject).",
        technique="deterministic simulation + fault injection: seeded programs, aimed rejections, line-level interrupt enumeration, robot replay of records and of the file written by __exit__",
        ref="DESIGN.md section 5 / C03",
    ),
}


def main():
    checks = []
    for pid in sorted(CHECKS):
        c = CHECKS[pid]
        checks.append({
            "property_id": pid,
            "quick_cmd": f"/venv/bin/python -m verif.check {pid} --tier quick",
            "thorough_cmd": f"/venv/bin/python -m verif.check {pid} --tier thorough",
            "evidence_file": f"/verif/evidence/{pid}.json",
            "replay_cmd_template": f"/venv/bin/python -m verif.check {pid} --replay {{path}}",
            "engine": "bench",
            "level_claimed": {"category": c["level"], "text": c["text"], "design_ref": c["ref"]},
            "level_note": c["note"],
            "technique": c["technique"],
        })
    man = {
        "version": 1,
        "setup_cmd": "/venv/bin/python -m compileall -q /verif/verif && /venv/bin/python -c \"import numpy, sys; sys.path.insert(0, '/repo'); import robotools\"",
        "hooks": {
            "guard": "ROBOTOOLS_VERIF",
            "enable": "no hooks were needed: every seam (public API, sys.settrace, file path argument, constructor knobs) exists already; the guard name is reserved and unused",
            "baseline_off_cmd": "cd /repo && /venv/bin/python -m pytest -ra -q -p no:cacheprovider --timeout=900 --continue-on-collection-errors",
            "source_commits": [],
            "add_only": True,
        },
        "engines": [{
            "name": "bench",
            "path": "/verif/verif",
            "serves_properties": sorted(CHECKS),
            "kind_free_text": "hand-written deterministic simulator: seeded workload generator aimed by live labware state, settrace line-level fault injector, real file system scratch dirs, independent robot interpreter and exact-arithmetic ledger as reference models, ddmin shrinker, self-contained replay files",
        }],
        "checks": checks,
        "not_applicable": [{"property_id": k, "reason": v} for k, v in sorted(NA.items())],
        "notes": "All checks import robotools from VERIF_REPO (default /repo) working tree; VERIF_SEED, VERIF_TIER, VERIF_BUDGET_S, VERIF_WORKERS are honoured. Exit 2 = harness fault. Fix commits in /repo and known findings are listed in known_findings.json and DESIGN.md section 9.",
    }
    with open(os.path.join(ROOT, "MANIFEST.json"), "w") as f:
        json.dump(man, f, indent=1)
    print("wrote MANIFEST.json with", len(checks), "checks")


if __name__ == "__main__":
    main()
