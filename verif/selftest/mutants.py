"""Sensitivity self-test: hand-written mutants of robotools, each applied to a scratch copy of /repo
under /dev/shm (outside /repo and /verif, removed afterwards).  For each mutant: does the repository's
own test suite miss it, and does the quick check of the owning property catch it (exit 1 + VIOLATION)?

Results are written to verif/selftest/RESULTS.md.
"""
import os
import shutil
import subprocess
import sys
import time

ROOT = os.path.dirname(os.path.dirname(os.path.dirname(os.path.abspath(__file__))))
BASE = "robotools/worklists/base.py"
EVO = "robotools/evotools/worklist.py"
FLU = "robotools/fluenttools/worklist.py"
LAB = "robotools/liquidhandling/labware.py"
COMP = "robotools/liquidhandling/composition.py"
WUT = "robotools/worklists/utils.py"
EUT = "robotools/evotools/utils.py"
FUT = "robotools/fluenttools/utils.py"
CMD = "robotools/evotools/commands.py"

# (name, [properties expected to catch], file, old, new)
MUTANTS = [
    # ---------------- C01
    ("fluent_trough_pos_plus_row", ["C01", "C16"], FUT, "        return 1 + c\n", "        return 1 + c + labware.row_ids.index(well[0])\n"),
    ("evo_trough_pos_real_rows", ["C01", "C16"], EUT, "        return 1 + c * labware.virtual_rows + r", "        return 1 + c * 1 + r"),
    ("distribute_removes_n_minus_1", ["C01"], BASE, "source.remove(source.wells[0, source_column], volume * n_dst, label=label)",
     "source.remove(source.wells[0, source_column], volume * (n_dst - 1), label=label)"),
    ("volume_one_decimal", ["C01"], WUT, 'volume_str = f"{numpy.round(volume, decimals=2):.2f}"', 'volume_str = f"{numpy.round(volume, decimals=1):.2f}"'),
    ("aspirate_flatten_C", ["C01", "C04"], BASE,
     '        wells = numpy.array(wells).flatten("F")\n        volumes = numpy.array(volumes).flatten("F")\n        if len(volumes) == 1:\n            volumes = numpy.repeat(volumes, len(wells))\n        labware.remove(wells, volumes, label)',
     '        wells = numpy.array(wells).flatten("F")\n        volumes = numpy.array(volumes).flatten("C")\n        if len(volumes) == 1:\n            volumes = numpy.repeat(volumes, len(wells))\n        labware.remove(wells, volumes, label)'),
    ("partition_sorts_dst_independently", ["C01", "C05"], WUT,
     "            list(numpy.array(dsts)[order]),", "            list(numpy.sort(numpy.array(dsts))),"),
    ("transfer_skips_below_one_evo", ["C01", "C16"], EVO, "                        if v > 0:\n                            self.aspirate(source, s, v",
     "                        if v >= 1:\n                            self.aspirate(source, s, v"),
    # ---------------- C02
    ("remove_checks_against_zero", ["C02"], LAB, "            if v_new < self.min_volume:", "            if v_new < 0:"),
    ("add_checks_original", ["C02"], LAB, "            if v_new > self.max_volume:", "            if v_original > self.max_volume:"),
    ("distribute_writes_dst_directly", ["C02"], BASE,
     "        destination.add(destination_wells, volume, label=label, compositions=[src_composition] * n_dst)",
     "        for _w in numpy.array(destination_wells).flatten('F'):\n            destination._volumes[destination.indices[_w]] += volume\n        destination.log(label)"),
    ("evo_dispense_tracking_skipped", ["C02", "C03"], EVO,
     "        labware.add(wells_calc, volumes_calc, label, compositions=compositions)", "        labware.log(label)"),
    ("add_check_after_write", ["C02"], LAB,
     "            if v_new > self.max_volume:\n                raise VolumeOverflowError(self.name, well, v_original, volume, self.max_volume, label)\n\n            self._volumes[idx] = v_new\n",
     "            self._volumes[idx] = v_new\n            if v_new > self.max_volume:\n                raise VolumeOverflowError(self.name, well, v_original, volume, self.max_volume, label)\n\n"),
    # ---------------- C03
    ("aspirate_emits_before_remove", ["C03"], BASE,
     "        labware.remove(wells, volumes, label)\n        self.comment(label)\n        for well, volume in zip(wells, volumes):\n            if volume > 0:\n                self.aspirate_well(labware.name, self._get_well_position(labware, well), volume, **kwargs)\n        return",
     "        self.comment(label)\n        for well, volume in zip(wells, volumes):\n            if volume > 0:\n                self.aspirate_well(labware.name, self._get_well_position(labware, well), volume, **kwargs)\n        labware.remove(wells, volumes, label)\n        return"),
    ("max_volume_guard_removed", ["C03"], WUT,
     "    if max_volume is not None and volume > max_volume:\n        raise InvalidOperationError(f\"Volume of {volume} exceeds max_volume.\")",
     "    if max_volume is not None and volume > max_volume:\n        pass"),
    ("distribute_emits_before_tracking", ["C03"], BASE,
     "        # update volume tracking first, so that a rejected distribution is never written to the worklist\n        n_dst = len(dst_wells)\n        source.remove(source.wells[0, source_column], volume * n_dst, label=label)\n        src_composition = source.get_well_composition(source.wells[0, source_column])\n        destination.add(destination_wells, volume, label=label, compositions=[src_composition] * n_dst)\n",
     "        n_dst = len(dst_wells)\n"),
    ("multi_disp_not_reduced", ["C03"], BASE, "            multi_disp = math.floor(self.max_volume / volume)", "            pass"),
    ("exit_swallows", ["C03", "C17"], BASE, "            self.save(self._filepath)\n        return\n", "            self.save(self._filepath)\n        return True\n"),
    # ---------------- C04
    ("add_flatten_C", ["C04"], LAB,
     '        wells = np.array(wells).flatten("F")\n        volumes = np.array(volumes).flatten("F")\n        if len(volumes) == 1:\n            volumes = np.repeat(volumes, len(wells))\n        assert len(volumes) == len(wells), "Number of volumes must equal the number of wells"',
     '        wells = np.array(wells).flatten("C")\n        volumes = np.array(volumes).flatten("F")\n        if len(volumes) == 1:\n            volumes = np.repeat(volumes, len(wells))\n        assert len(volumes) == len(wells), "Number of volumes must equal the number of wells"'),
    ("remove_repeats_charged_once", ["C04"], LAB,
     "            self._volumes[idx] -= volume\n        self.log(label)", "            self._volumes[idx] = v_original - volume if list(wells).count(well) == 1 else self._volumes[idx] - volume / list(wells).count(well)\n        self.log(label)"),
    ("remove_limit_check_cached_per_call", ["C02"], LAB,
     "        for well, volume in zip(wells, volumes):\n            idx = self.indices[well]\n            v_original = self._volumes[idx]\n            v_new = v_original - volume\n",
     "        v_start = self._volumes.copy()\n        for well, volume in zip(wells, volumes):\n            idx = self.indices[well]\n            v_original = v_start[idx]\n            v_new = v_original - volume\n"),
    ("trough_indices_virtual_row", ["C04"], LAB, '                f"{vrow}{column:02d}": (0, c)\n', '                f"{vrow}{column:02d}": (0, min(c + (1 if vr == 2 else 0), columns - 1))\n'),
    # ---------------- C05
    ("combine_weights_b_by_volume_a", ["C05", "C01"], COMP, "        volumetric_fractions[k] += f * volume_B", "        volumetric_fractions[k] += f * volume_A"),
    ("transfer_passes_dst_composition_evo", ["C05", "C16"], EVO, "compositions=[source.get_well_composition(s)],", "compositions=[destination.get_well_composition(d)],"),
    ("distribute_reads_column0", ["C05", "C01"], BASE, "src_composition = source.get_well_composition(source.wells[0, source_column])",
     "src_composition = source.get_well_composition(source.wells[0, 0])"),
    ("composition_updated_on_remove", ["C05"], LAB, "            self._volumes[idx] -= volume\n        self.log(label)",
     "            self._volumes[idx] -= volume\n            if self._volumes[idx] == 0:\n                for _k in self._composition:\n                    self._composition[_k][idx] = 0\n        self.log(label)"),
    ("add_weights_by_new_volume", ["C05"], LAB, "new_composition = combine_composition(v_original, original_composition, volume, composition)",
     "new_composition = combine_composition(v_new, original_composition, volume, composition)"),
    # ---------------- C11
    ("log_aliases_volumes", ["C11"], LAB, "        self._history.append(self.volumes)", "        self._history.append(self._volumes)"),
    ("volumes_returns_live", ["C11"], LAB, "        return self._volumes.copy()", "        return self._volumes"),
    ("condense_same_labware_nsteps", ["C11", "C16"], EVO, "            source.condense_log(nsteps * 2, label=label)", "            source.condense_log(nsteps, label=label)"),
    ("condense_nsteps_plus1_fluent", ["C11", "C16"], FLU, "            source.condense_log(nsteps, label=label)\n            destination.condense_log(nsteps, label=label)",
     "            source.condense_log(nsteps + 1, label=label)\n            destination.condense_log(nsteps, label=label)"),
    ("lvh_counts_parts", ["C11"], EVO, "lvh_extra += sum([max(0, len(vs) - 1) for vs in vol_lists])", "lvh_extra += sum([len(vs) if len(vs) > 1 else 0 for vs in vol_lists])"),
    # ---------------- C16
    ("fluent_wash_before_dispense", ["C16"], FLU,
     "                            nsteps += 1\n                            if wash_scheme == \"flush\":",
     "                            nsteps += 1\n                            if wash_scheme == \"flush\" and len(vs) == 1:"),
    ("fluent_missing_commit", ["C16"], FLU, "            # LVH: don't group across columns\n            if npartitions > 1:\n                self.commit()",
     "            # LVH: don't group across columns\n            if npartitions > 2:\n                self.commit()"),
    ("base_guesses_position", ["C16"], BASE,
     '        raise TypeError(\n            "The use of a specific worklist type (typically EvoWorklist or FluentWorklist) is required for this operation."\n        )',
     "        return labware._positions[well]"),
    # ---------------- C17
    ("save_newline_lf", ["C17"], BASE, 'newline="\\r\\n", encoding="latin_1"', 'newline="\\n", encoding="latin_1"'),
    ("save_utf8", ["C17"], BASE, 'encoding="latin_1"', 'encoding="utf-8"'),
    ("save_trailing_newline", ["C17"], BASE, 'file.write("\\n".join(self))', 'file.write("\\n".join(self) + "\\n")'),
    ("save_no_truncate", ["C17"], BASE, '        filepath.unlink(missing_ok=True)\n        with open(filepath, "w", newline="\\r\\n", encoding="latin_1") as file:',
     '        filepath.touch()\n        with open(filepath, "r+", newline="\\r\\n", encoding="latin_1") as file:'),
    ("exit_saves_only_on_success", ["C17", "C03"], BASE, "        if self._filepath:\n            self.save(self._filepath)", "        if self._filepath and exc_type is None:\n            self.save(self._filepath)"),
    ("exit_skips_save_on_keyboardinterrupt", ["C17", "C03"], BASE, "        if self._filepath:\n            self.save(self._filepath)",
     "        if exc_type is not None and issubclass(exc_type, KeyboardInterrupt):\n            return\n        if self._filepath:\n            self.save(self._filepath)"),
    ("dispense_swallows_overflow", ["C03", "C02"], BASE, "        labware.add(wells, volumes, label, compositions=compositions)\n        self.comment(label)",
     "        try:\n            labware.add(wells, volumes, label, compositions=compositions)\n        except liquidhandling.VolumeOverflowError:\n            logger.warning('overflow')\n        self.comment(label)"),
    ("enter_does_not_clear", ["C17"], BASE, "        self.clear()\n        return self", "        return self"),
    ("gwl_check_deleted", ["C17"], BASE, '        assert ".gwl" in filepath.name.lower(), "The filename did not contain the .gwl extension."\n', ""),
    ("save_drops_last_record", ["C17"], BASE, 'file.write("\\n".join(self))', 'file.write("\\n".join(self[:-1] if len(self) > 3 else self))'),
    # ---------------- added in the third session (new fault kinds / clauses)
    ("exit_logs_and_swallows_oserror", ["C17"], BASE, "        if self._filepath:\n            self.save(self._filepath)\n        return\n",
     "        if self._filepath:\n            try:\n                self.save(self._filepath)\n            except OSError:\n                logger.exception('could not write the worklist')\n        return\n"),
    ("save_logs_and_swallows_oserror", ["C17"], BASE,
     '        with open(filepath, "w", newline="\\r\\n", encoding="latin_1") as file:\n            file.write("\\n".join(self))\n',
     '        try:\n            with open(filepath, "w", newline="\\r\\n", encoding="latin_1") as file:\n                file.write("\\n".join(self))\n        except OSError as ex:\n            logger.warning("failed to write %s: %s", filepath, ex)\n'),
    ("ctor_negative_check_all_instead_of_any", ["C02"], LAB, "        if np.any(initial_volumes < 0):", "        if np.all(initial_volumes < 0):"),
    ("report_prints_live_volumes", ["C11"], LAB, '            report += f"\\n{np.round(state, decimals=1)}"', '            report += f"\\n{np.round(self._volumes, decimals=1)}"'),
    ("add_ignores_empty_composition", ["C01"], LAB, "            if composition is not None and self._composition is not None:", "            if composition and self._composition is not None:"),
    ("max_volume_guard_cached_at_first_use", ["C03"], BASE, "            max_volume=self.max_volume,\n        )\n        tip_type = \"\"\n        self.append(\n            f\"A;",
     "            max_volume=self.__dict__.setdefault(\"_max_volume_cached\", self.max_volume),\n        )\n        tip_type = \"\"\n        self.append(\n            f\"A;"),
]


def make_copy(dst):
    if os.path.exists(dst):
        shutil.rmtree(dst)
    subprocess.run(["rsync", "-a", "--exclude", ".git", "--exclude", "__pycache__", "--exclude", "notebooks", "--exclude", "docs",
                    "/repo/", dst + "/"], check=True)


def apply(dst, path, old, new):
    p = os.path.join(dst, path)
    s = open(p).read()
    if old not in s:
        return False
    open(p, "w").write(s.replace(old, new, 1))
    return True


def run_mutants(props, only, budget, with_pytest):
    rows = []
    t_all = time.time()
    for name, owners, path, old, new in MUTANTS:
        if only and only != name:
            continue
        if not set(owners) & set(props):
            continue
        dst = f"/dev/shm/rtcopy-mut-{name}"
        try:
            make_copy(dst)
            if not apply(dst, path, old, new):
                rows.append((name, owners, "PATCH-DOES-NOT-APPLY", "-", {}))
                print(name, "patch does not apply")
                continue
            suite = "-"
            if with_pytest:
                p = subprocess.run([sys.executable, "-m", "pytest", "-q", "-x", "-p", "no:cacheprovider", "--timeout=600"],
                                   cwd=dst, capture_output=True, text=True, env={**os.environ, "PYTHONDONTWRITEBYTECODE": "1"})
                suite = "passes" if p.returncode == 0 else "FAILS"
            res = {}
            for prop in owners:
                if prop not in props:
                    continue
                env = {**os.environ, "VERIF_REPO": dst, "PYTHONDONTWRITEBYTECODE": "1"}
                t0 = time.time()
                p = subprocess.run([sys.executable, "-m", "verif.check", prop, "--tier", "quick", "--budget", str(budget), "--no-evidence"],
                                   cwd=ROOT, capture_output=True, text=True, env=env)
                caught = p.returncode == 1 and "VIOLATION property=" in p.stdout
                clauses = sorted({ln.split("clause=")[1].split()[0] for ln in p.stdout.splitlines() if ln.startswith("# clause=")})
                res[prop] = ("caught" if caught else f"MISSED(exit {p.returncode})", clauses, round(time.time() - t0))
            rows.append((name, owners, "applied", suite, res))
            print(name, suite, res)
            sys.stdout.flush()
        finally:
            shutil.rmtree(dst, ignore_errors=True)
    out = ["# Mutant kill matrix (verif.selftest mutants)", "",
           f"budget per check: {budget}s quick tier; total wall {time.time() - t_all:.0f}s", "",
           "| mutant | repo test suite | check | verdict | clauses |", "|---|---|---|---|---|"]
    missed = 0
    for name, owners, status, suite, res in rows:
        if not res:
            out.append(f"| {name} | {suite} | - | {status} | |")
            continue
        for prop, (verdict, clauses, secs) in res.items():
            if not verdict.startswith("caught"):
                missed += 1
            out.append(f"| {name} | {suite} | {prop} | {verdict} | {', '.join(clauses)} |")
    if not only and set(props) >= {"C01", "C02", "C03", "C04", "C05", "C11", "C16", "C17"}:
        with open(os.path.join(ROOT, "verif", "selftest", "RESULTS.md"), "w") as f:
            f.write("\n".join(out) + "\n")
    print("\n".join(out))
    return 0 if missed == 0 else 1
