#!/bin/bash
# Soak: many seeds x all checks on the unchanged tree; any exit != 0 is a false alarm (or a new finding) to triage.
# usage: tools_soak.sh <first_seed> <last_seed> [budget_s] [tier]
first=${1:-1}; last=${2:-20}; budget=${3:-30}; tier=${4:-quick}
for seed in $(seq $first $last); do
  for p in C01 C02 C03 C04 C05 C11 C16 C17; do
    out=$(VERIF_SEED=$seed /venv/bin/python -m verif.check $p --tier $tier --budget $budget --no-evidence 2>&1)
    rc=$?
    echo "seed=$seed $p rc=$rc $(echo "$out" | grep '^# runs' | cut -c1-90)"
    if [ $rc -ne 0 ]; then echo "$out" | grep -v '^KNOWN' | tail -15; fi
  done
done
