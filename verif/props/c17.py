"""C17 - saving writes exactly the records, one per line, replacing earlier content.

Histories over one worklist object and one real scratch directory: appends of every record type,
save() to str/Path names, repeated saves with growing and shrinking content, `with` blocks entered
on a non-empty worklist and left by exception, hostile pre-existing files, and an interrupt at
every robotools source line inside save()/__exit__ followed by a recovery save.
See DESIGN.md section 5 / C17.
"""
import os
import pathlib

from ..sim import ops as opsmod
from ..sim.bench import Session, classify, digest_events
from ..sim.faults import InjectedError, InjectedInterrupt, LineInjector
from ..sim.gen import Gen
from ..sim.geom import enc
from ..sim.world import PRESTATE_BYTES, gen_world
from .common import ExecBase, Scratch, Violation, short_hash

PROP = "C17"
LEVEL = "fault_enumeration"
CHUNK = {"quick": 5, "thorough": 5}
KEEP_LAST_OP = False
RULE = ("A case is one execution of a seeded history over one worklist object and one real scratch directory "
        "(appends of every record type, save to str/Path, repeated saves, clear, with-blocks left normally or by "
        "an exception, hostile pre-existing files); for every save()/__exit__ of a program each robotools source "
        "line inside it is in turn the point of an injected exception, followed by a recovery save. Distinct = "
        "distinct event-log digest (per step: op kind, outcome class, #records, hashes of all files in the scratch "
        "directory); non-trivial = at least one file with >= 2 records was written and a fault fired or a hostile "
        "pre-state was overwritten.")
COMPONENTS = {"real": ["robotools BaseWorklist.save/__enter__/__exit__/__str__ and all record emitters",
                       "CPython io/pathlib", "kernel file system (tmpfs scratch dir)"],
              "stub": ["user script (seeded generator)"]}
ASSUMPTIONS = ["the only OS-level I/O error injected is a full disk (RLIMIT_FSIZE: short write, then EFBIG); after it nothing is claimed about the file, only that save()/__exit__ did not return as if it had succeeded",
               "record alphabet: printable Latin-1, tab, and the chr(48)..chr(175) range of EVO well selections (no CR/LF inside a record)"]

TEXTS = ["hello", "µL of Müller's buffer", "ÿ±½ end", "  padded  ", "a\nb\n\nc", "x" * 60, "tab\there", "semi-colon free",
         "windows\r\nline ends\r\n", "mixed\r\nline\nends", "  indented\r\n    more\r\n", "€ not latin-1"]
GOOD_NAMES = ["out.gwl", "OUT.GWL", "my worklist.gwl", "a.b.gwl", "second.Gwl", "µ.gwl", "sub dir/in dir.gwl"]
BAD_NAMES = ["out.txt", "worklist", "gwl", "out.gw", "out.csv", "plate7.gwl.d/notes.txt", "run.GWL/out", "plate_3", "run7.csv"]


class FileSizeLimit:
    """disk-full seam: RLIMIT_FSIZE for the duration of one save - the kernel then cuts the write short at n bytes
    and fails it with EFBIG (CPython ignores SIGXFSZ), whatever API the implementation writes through. Nothing
    else may write to a regular file inside the window (no printing, no logging by the harness)."""

    def __init__(self, n):
        self.n = n

    def __enter__(self):
        import resource
        self.old = resource.getrlimit(resource.RLIMIT_FSIZE)
        resource.setrlimit(resource.RLIMIT_FSIZE, (self.n, self.old[1]))
        return self

    def __exit__(self, *a):
        import resource
        resource.setrlimit(resource.RLIMIT_FSIZE, self.old)
        return False


def expected_bytes(records):
    return "\r\n".join(records).encode("latin-1")


class Exec(ExecBase):
    def __init__(self):
        super().__init__()
        self.files_written = 0
        self.max_records_written = 0
        self.fault_fired = False
        self.prestate_overwritten = False
        self.save_lines = {}  # op path (tuple) -> number of robotools line events inside save/exit
        self.save_sizes = {}  # op path (tuple) -> number of bytes the save has to write
        self.outcomes = []
        self.disk_full = 0


def dir_state(scratch, own_names=None):
    """(name, content hash) of every file below the scratch directory. Files whose names the harness did not
    choose itself (e.g. the randomly named temporary file of an implementation that writes and then renames,
    left behind by an injected interrupt) enter without their name, so that the event log stays a function of
    the seed alone."""
    out = []
    for root, dirs, files in os.walk(scratch):
        dirs.sort()
        for n in sorted(files):
            p = os.path.join(root, n)
            try:
                with open(p, "rb") as f:
                    data = f.read()
            except OSError:
                continue
            rel = os.path.relpath(p, scratch)
            out.append((rel if (own_names is None or rel in own_names) else "<not named by the script>", short_hash(data)))
    return tuple(sorted(out))


def execute(spec, count_lines=False):
    world = spec["world"]
    res = Exec()
    res.ops = spec["ops"]

    def fail(clause, idx, op, outcome, detail, facts=None):
        res.add(Violation(PROP, clause, spec, idx, op["op"] if op else None, outcome, detail, facts=facts or {}))

    with Scratch() as scratch:
        for sub in ("plate7.gwl.d", "run.GWL", "sub dir"):
            os.makedirs(os.path.join(scratch, sub), exist_ok=True)
        sess = Session(world, scratch=scratch)
        rt = sess.rt
        wl = sess.wl
        known = {}  # file name -> expected bytes, or None when nothing is claimed (fault inside save)
        events = []
        own_names = set(GOOD_NAMES) | set(BAD_NAMES) | {world["worklist"]["file"], "autosave-twin.gwl"}
        for o in spec["ops"]:
            for b in [o] + list(o.get("body") or []):
                if "file" in b:
                    own_names.add(b["file"])

        def path_of(name, kind):
            if kind in ("rel", "relPath"):
                # relative to the current directory (the harness changes into the scratch directory for the call)
                return pathlib.Path(name) if kind == "relPath" else name
            p = os.path.join(scratch, name)
            return pathlib.Path(p) if kind == "Path" else p

        def read(name):
            try:
                with open(os.path.join(scratch, name), "rb") as f:
                    return f.read()
            except FileNotFoundError:
                return None

        def check_str(i, op):
            recs = [str(r) for r in wl]
            # "one per line": a record that carries a line break of its own is two lines in the file (and shows as
            # extra lines when the file is read back and split at line breaks)
            bad = next((r for r in recs if "\n" in r or "\r" in r), None)
            if bad is not None:
                fail("C17.one_per_line", i, op, "ok", f"the record {bad[:40]!r} contains a line break")
            exp = "\n".join(recs)
            try:
                s1, s2 = str(wl), repr(wl)
            except Exception as e:  # noqa
                fail("C17.str", i, op, type(e).__name__, "str(worklist) raised")
                return
            if s1 != exp or s2 != exp:
                fail("C17.str", i, op, "ok", f"str/repr of the worklist differ from the newline-joined records")

        def check_file(i, op, name, recs, clause="C17.bytes"):
            data = read(name)
            exp = expected_bytes(recs)
            if data is None:
                fail(clause, i, op, "ok", f"{name}: no file after save of {len(recs)} records")
                return
            if data != exp:
                # describe the first difference
                n = min(len(data), len(exp))
                k = next((j for j in range(n) if data[j] != exp[j]), n)
                fail(clause, i, op, "ok",
                     f"{name}: file has {len(data)} bytes, expected {len(exp)}; first difference at byte {k}: "
                     f"{data[max(0, k - 10):k + 10]!r} vs {exp[max(0, k - 10):k + 10]!r}",
                     {"len_file": len(data), "len_expected": len(exp)})
                return
            text = data.decode("latin-1")
            back = text.split("\r\n") if text != "" else []
            if back != recs:
                fail("C17.roundtrip", i, op, "ok", f"{name}: splitting the file at CRLF gives {len(back)} records, the worklist has {len(recs)}")
            res.files_written += 1
            res.max_records_written = max(res.max_records_written, len(recs))

        def check_frame(i, op, touched):
            for name, exp in known.items():
                if name in touched or exp is None:
                    continue
                if read(name) != exp:
                    fail("C17.frame", i, op, "ok", f"{name} changed although this operation did not save to it")
                    known[name] = read(name)

        def run_body_op(i, op, path):
            """an operation that only appends records (or fails). -> exception or None"""
            inj = op.get("inject")
            out = sess.step(op, inject=(inj["k"], inj.get("exc", "interrupt")) if inj else None)
            if out.injected:
                res.fault_fired = True
            return out

        def do_save(i, op, key):
            name, kind = op["file"], op.get("path_kind", "str")
            recs_before = [str(r) for r in wl]
            inj = op.get("inject")
            injector = LineInjector(inj["k"] if inj else None, (inj or {}).get("exc", "interrupt"),
                                    only_files="worklists/base.py") if (inj or count_lines) else None
            exc = None
            had = read(name)
            cwd = os.getcwd()
            if kind in ("rel", "relPath"):
                os.chdir(scratch)
            try:
                need = len(expected_bytes(recs_before))
            except UnicodeEncodeError:
                need = None
            res.save_sizes[key] = need
            fsize = op.get("fsize")
            def call_save():
                # `wl.save(path)` or `wl.save(filepath=path)`: the parameter is documented under that name
                if op.get("by_keyword"):
                    return wl.save(filepath=path_of(name, kind))
                return wl.save(path_of(name, kind))

            try:
                if injector:
                    with injector:
                        call_save()
                elif fsize is not None:
                    with FileSizeLimit(fsize):
                        call_save()
                else:
                    call_save()
            except BaseException as e:  # noqa
                if isinstance(e, (SystemExit, GeneratorExit)):
                    raise
                exc = e
            finally:
                os.chdir(cwd)
            if injector:
                res.save_lines[key] = injector.count
            if fsize is not None and exc is not None and need is not None and fsize < need and op.get("expect") != "refuse":
                # the disk was full: the save said so. Nothing is claimed about the file it leaves behind.
                res.fault_fired = True
                res.disk_full += 1
                known[name] = None
                res.outcomes.append("diskfull")
                check_frame(i, op, {name})
                return
            recs = [str(r) for r in wl]
            if recs != recs_before:
                fail("C17.save_mutates", i, op, "ok", "save() changed the record list")
            fired = injector is not None and injector.fired
            if fired:
                from ..sim.faults import settle
                settle(exc)
                res.fault_fired = True
                known[name] = None  # nothing is claimed about the file of an aborted save
                res.outcomes.append("injected")
            elif exc is not None:
                res.outcomes.append(classify(rt, exc))
                if op.get("expect") == "refuse":
                    if read(name) != had:
                        fail("C17.refuse", i, op, classify(rt, exc), f"refused save to {name!r} still touched the file")
                        if name in known:
                            known[name] = read(name)
                else:
                    fail("C17.save_raises", i, op, classify(rt, exc), f"save({name!r}) raised {type(exc).__name__}")
                    known[name] = read(name)
            else:
                res.outcomes.append("ok")
                if op.get("expect") == "refuse":
                    fail("C17.refuse", i, op, "ok", f"save to {name!r}, a name without .gwl extension, was accepted")
                    known[name] = read(name)
                else:
                    if had is not None and known.get(name, b"") is not None and had != expected_bytes(recs):
                        res.prestate_overwritten = True
                    check_file(i, op, name, recs)
                    known[name] = read(name)
            check_frame(i, op, {name})

        try:
            for i, op in enumerate(spec["ops"]):
                k = op["op"]
                if k == "prewrite":
                    if op["prestate"] in ("same_lf", "same_cr", "same_trailing"):
                        # somebody else's copy of the very same records with other line breaks (an editor or a
                        # version-control system normalised them) or with a trailing line break
                        recs_now = [str(r) for r in wl]
                        sep = {"same_lf": "\n", "same_cr": "\r", "same_trailing": "\r\n"}[op["prestate"]]
                        pre_bytes = sep.join(recs_now).encode("latin-1", "replace")
                        if op["prestate"] == "same_trailing":
                            pre_bytes += b"\r\n"
                    else:
                        pre_bytes = PRESTATE_BYTES[op["prestate"]]
                    with open(os.path.join(scratch, op["file"]), "wb") as f:
                        f.write(pre_bytes)
                    known[op["file"]] = pre_bytes
                    res.outcomes.append("ok")
                elif k == "with_bad_ctor":
                    # a worklist *constructed* with a file name that has no .gwl extension: the refusal may come at
                    # construction or when the with block is left - but it has to come, and somebody else's file under
                    # that name stays as it is
                    name = op["file"]
                    had = read(name)
                    refused = False
                    try:
                        cls = type(wl)
                        p2 = path_of(name, op.get("path_kind", "str"))
                        wl2 = cls(p2, max_volume=950) if not op.get("by_keyword") else cls(filepath=p2, max_volume=950)
                        with wl2:
                            wl2.comment("one record")
                    except Exception:  # noqa
                        refused = True
                    res.outcomes.append("refused" if refused else "ok")
                    if not refused:
                        fail("C17.refuse", i, op, "ok", f"a worklist constructed with the file name {name!r} (no .gwl extension) "
                                                        f"left its with block without any refusal")
                    elif read(name) != had:
                        fail("C17.refuse", i, op, "refused", f"the refused autosave to {name!r} still touched that file")
                    if name in known:
                        known[name] = read(name)
                    check_frame(i, op, {name})
                elif k == "save":
                    do_save(i, op, (i,))
                elif k == "with":
                    target = world["worklist"]["file"]
                    had = read(target)
                    inside = []
                    entered_len = None
                    raised = None
                    body_failed = None
                    inj_exit = op.get("inject_exit")
                    injector = LineInjector(inj_exit["k"] if inj_exit else None, (inj_exit or {}).get("exc", "interrupt"),
                                            only_files="worklists/base.py") if (inj_exit or count_lines) else None
                    fsize_exit = op.get("fsize_exit")
                    limit = None
                    diskfull_exit = False

                    def arm():
                        nonlocal limit
                        try:
                            res.save_sizes[(i, "exit")] = len(expected_bytes([str(r) for r in wl]))
                        except UnicodeEncodeError:
                            res.save_sizes[(i, "exit")] = None
                        if fsize_exit is not None:
                            limit = FileSizeLimit(fsize_exit)
                            limit.__enter__()

                    try:
                        with wl:
                            entered_len = len(wl)
                            for bi, bop in enumerate(op["body"]):
                                if bop["op"] == "save":
                                    do_save(i, bop, (i, bi))
                                    continue
                                out = run_body_op(i, bop, None)
                                inside.extend(out.new_records)
                                if not out.ok:
                                    body_failed = out
                                    raised = out.exc
                                    arm()
                                    if injector:
                                        injector.__enter__()
                                    raise out.exc
                            arm()
                            if injector:
                                injector.__enter__()
                    except BaseException as e:  # noqa
                        if limit is not None:
                            limit.__exit__(None, None, None)
                            limit = None
                        if isinstance(e, (SystemExit, GeneratorExit)):
                            raise
                        if injector:
                            injector.__exit__(None, None, None)
                        if raised is None or e is not raised:
                            need = res.save_sizes.get((i, "exit"))
                            if fsize_exit is not None and need is not None and fsize_exit < need:
                                # the disk was full when the block was left: the failure to save is reported
                                diskfull_exit = True
                                raised = e
                            elif injector is not None and injector.fired:
                                raised = e
                            elif isinstance(e, (InjectedInterrupt, InjectedError)):
                                raised = e
                            else:
                                fail("C17.exit_raises", i, op, classify(rt, e), f"leaving the with block raised {type(e).__name__}")
                                raised = e
                    else:
                        if limit is not None:
                            limit.__exit__(None, None, None)
                            limit = None
                        if injector:
                            injector.__exit__(None, None, None)
                        if body_failed is not None:
                            fail("C17.exit_on_error", i, op, body_failed.exc_type,
                                 "the exception raised inside the with block was swallowed")
                    if injector:
                        res.save_lines[(i, "exit")] = injector.count
                    fired_exit = injector is not None and injector.fired
                    if fired_exit:
                        from ..sim.faults import settle
                        settle(raised)
                    recs = [str(r) for r in wl]
                    if entered_len != 0:
                        fail("C17.enter_clears", i, op, "ok", f"the worklist held {entered_len} records right after entering the with block")
                    if diskfull_exit:
                        res.fault_fired = True
                        res.disk_full += 1
                        known[target] = None
                        res.outcomes.append("diskfull@exit")
                    elif fired_exit:
                        res.fault_fired = True
                        known[target] = None
                        res.outcomes.append("injected@exit")
                    else:
                        if body_failed is not None:
                            res.fault_fired = True
                        res.outcomes.append("ok" if body_failed is None else "raised:" + body_failed.exc_type)
                        if recs != inside:
                            fail("C17.enter_clears", i, op, "ok",
                                 f"after the with block the worklist holds {len(recs)} records, {len(inside)} were appended inside")
                        if had is not None and had != expected_bytes(recs):
                            res.prestate_overwritten = True
                        check_file(i, op, target, recs, "C17.bytes" if body_failed is None else "C17.exit_on_error")
                        known[target] = read(target)
                        # explicit save at the moment of exit gives identical bytes
                        alt = "autosave-twin.gwl"
                        try:
                            wl.save(os.path.join(scratch, alt))
                            if read(alt) != read(target):
                                fail("C17.autosave_equals_save", i, op, "ok", "explicit save() and the file written on exit differ")
                            known[alt] = read(alt)
                        except Exception as e:  # noqa
                            fail("C17.save_raises", i, op, classify(rt, e), "explicit save after the with block raised")
                    check_frame(i, op, {target, "autosave-twin.gwl"} | {b["file"] for b in op["body"] if b["op"] == "save"})
                else:
                    out = run_body_op(i, op, None)
                    res.outcomes.append(out.exc_type if not out.ok else "ok")
                    check_frame(i, op, set())
                check_str(i, op)
                events.append((i, k, res.outcomes[-1] if res.outcomes else None, len(wl), dir_state(scratch, own_names)))
        finally:
            pass
        res.events = events
        res.digest = digest_events(events)
        for v in res.violations:
            v.digest = res.digest
    return res


# --------------------------------------------------------------------------------------- generation
def gen_record_op(rng, gen, sess_like, world):
    """an operation that appends records without needing labware state (or a simple liquid one)."""
    r = rng.random()
    labs = world["labware"]
    if r < 0.25:
        return {"op": "comment", "text": rng.choice(TEXTS[:-1])}
    if r < 0.35:
        return gen.gen_misc()
    if r < 0.5:
        return {"op": rng.choice(["aspirate_well", "dispense_well"]), "rack": rng.choice([labs[0]["name"], "Systemliquid", "µ-rack"]),
                "pos": rng.randint(1, 96), "volume": enc(float(rng.choice([0.0, 1.5, 10.0, 2.675, 7.0]))),
                "kw": ({"liquid_class": rng.choice(["", "Wäßrig", "Water"])} if rng.random() < 0.5 else {})}
    if r < 0.6:
        return {"op": "reagent_distribution", "src_rack": "T", "ss": 1, "se": 8, "dst_rack": "P", "ds": 1, "de": rng.randint(2, 96),
                "volume": enc(float(rng.choice([1.0, 5.5, 7.0]))),
                "kw": {"multi_disp": rng.choice([1, 6]), "exclude_wells": sorted(rng.sample(range(1, 3), rng.randint(0, 1)))}}
    if r < 0.7:
        return {"op": "evo_wash", "tips": [1, 2], "waste": [52, 2], "cleaner": [52, 1]}
    if r < 0.76:
        # an EVO script command as evo_aspirate writes it: the well selection packs 7 wells per character,
        # chr(48) ... chr(175) - that range contains DEL and C1 control characters such as NEL (0x85)
        sel = [chr(48 + rng.randrange(128)) for _ in range(rng.randint(2, 14))]
        if rng.random() < 0.3:
            sel[rng.randrange(len(sel))] = rng.choice(["\x85", "\x7f", "\x9c", "\xa0", "\xad"])
        return {"op": "append_raw", "record": 'B;Aspirate(15,"Water","50.0","50.0",0,0,0,0,0,0,0,0,0,0,38,1,1,"0C08%s",0,0);' % "".join(sel)}
    if r < 0.80 and world["device"] == "evo":
        return gen.gen_evo(sess_like, rng.choice(["evo_aspirate", "evo_dispense"]), intent="ok")
    return None


class Program:
    def __init__(self, rng, tier):
        self.rng = rng
        self.world = gen_world(rng, {"integer_max_volume": True, "patterns": ["full", "uniform", "mixed"]})
        self.gen = Gen(rng, self.world)

    def build(self):
        """C17 programs are generated against a throw-away session (labware state for the liquid ops)."""
        rng, world, gen = self.rng, self.world, self.gen
        with Scratch() as scratch:
            sess = Session(world, scratch=scratch)
            ops = []
            main = world["worklist"]["file"]
            pre = world["disk"]["prestate"]
            if pre != "none":
                ops.append({"op": "prewrite", "file": main, "prestate": pre})

            def record_ops(n, allow_fail=False):
                out = []
                for _ in range(n):
                    op = gen_record_op(rng, gen, sess, world)
                    if op is None:
                        kind = rng.choice(["transfer", "aspirate", "dispense"])
                        op = gen.gen_transfer(sess, "ok") if kind == "transfer" else gen.gen_addremove(sess, kind, intent="ok")
                    o = sess.step(op)
                    out.append(op)
                    if not o.ok and not allow_fail:
                        pass
                return out

            def bulk():
                # a long protocol (hundreds to thousands of records, around block sizes an implementation may use)
                op = {"op": "bulk_comment", "n": rng.choice([255, 257, 999, 1000, 1001, 1023, 1025, 2049, 4097, 8193, 10001, 20001, 32769]),
                      "text": rng.choice(["step ", "µ"]), "width": rng.choice([0, 0, 40, 130])}
                sess.step(op)
                return [op]

            n_blocks = rng.randint(1, 4)
            for b in range(n_blocks):
                r = rng.random()
                big = bulk() if rng.random() < 0.07 else []
                if r < 0.45:
                    # with-block (auto-save on exit), possibly left by an exception
                    body = big + record_ops(rng.choice([0, 1, 2, 3, 5, 8]))
                    sess.wl.clear()
                    mode = rng.random()
                    if mode < 0.25:
                        bad = gen.gen_addremove(sess, "aspirate", intent="reject.underflow")
                        body.append(bad)
                    elif mode < 0.4 and body:
                        body[-1] = dict(body[-1])
                        body[-1]["inject"] = {"k": rng.randint(1, 60), "exc": rng.choice(["interrupt", "error"])}
                    if rng.random() < 0.2:
                        body.insert(rng.randint(0, len(body)), {"op": "save", "file": rng.choice(GOOD_NAMES), "path_kind": rng.choice(["str", "Path"])})
                    ops.append({"op": "with", "body": body})
                else:
                    ops.extend(big + record_ops(rng.choice([0, 1, 2, 4, 6])))
                    if rng.random() < 0.25:
                        # the worklist is a list: a user may edit records in place between saves
                        e = rng.choice([{"op": "set_record", "index": rng.randrange(50), "record": rng.choice(["C;edited", "W2;", "F;"])},
                                        {"op": "del_record", "index": rng.randrange(50)}])
                        ops.append(e)
                        sess.step(e)
                    name = rng.choice(GOOD_NAMES + [main, main])
                    if rng.random() < 0.3:
                        ops.append({"op": "prewrite", "file": name, "prestate": rng.choice(
                            ["empty", "shorter", "longer", "equalish", "torn", "same_lf", "same_cr", "same_trailing"])})
                    ops.append({"op": "save", "file": name, "path_kind": rng.choice(["str", "Path", "str", "Path", "rel", "relPath"])})
                    r2 = rng.random()
                    if r2 < 0.3:
                        ops.append({"op": "clear"})
                        sess.wl.clear()
                        ops.extend(record_ops(rng.choice([0, 1])))
                        ops.append({"op": "save", "file": name, "path_kind": rng.choice(["str", "Path"])})
                    elif r2 < 0.5:
                        # same number of records, other content, saved again to the same name
                        e = {"op": "set_record", "index": rng.randrange(50), "record": rng.choice(["C;second version", "W3;", "B;"])}
                        ops.append(e)
                        sess.step(e)
                        ops.append({"op": "save", "file": name, "path_kind": rng.choice(["str", "Path"])})
                if rng.random() < 0.06:
                    ops.append({"op": "with_bad_ctor", "file": rng.choice(["plate_3", "worklist", "out.txt", "gwl", "run7.csv"]),
                                "path_kind": rng.choice(["str", "Path"]), "by_keyword": rng.random() < 0.3})
                if rng.random() < 0.15:
                    bad = rng.choice(BAD_NAMES)
                    if rng.random() < 0.5:
                        # somebody else's file under the refused name: a refused save must not touch it
                        ops.append({"op": "prewrite", "file": bad, "prestate": rng.choice(["shorter", "longer", "equalish"])})
                    ops.append({"op": "save", "file": bad, "path_kind": rng.choice(["str", "Path"]), "expect": "refuse"})
        for o in ops:
            for b in [o] + list(o.get("body") or []):
                if b.get("op") == "save" and rng.random() < 0.25:
                    b["by_keyword"] = True
        return {"format": 1, "property": PROP, "world": world, "ops": ops}


def variants_with_save_faults(spec, res):
    """every (save / with-exit, line k) of the program as an injected fault followed by a recovery save."""
    import copy

    out = []
    for key, n in sorted(res.save_lines.items(), key=lambda kv: str(kv[0])):
        for k in range(1, n + 1):
            for exc in ("interrupt",):
                s = copy.deepcopy(spec)
                i = key[0]
                if len(key) == 1:
                    op = s["ops"][i]
                    if op.get("expect") == "refuse":
                        continue
                    op["inject"] = {"k": k, "exc": exc}
                    rec = {"op": "save", "file": op["file"], "path_kind": op.get("path_kind", "str")}
                elif key[1] == "exit":
                    s["ops"][i]["inject_exit"] = {"k": k, "exc": exc}
                    rec = {"op": "save", "file": s["world"]["worklist"]["file"], "path_kind": "str"}
                else:
                    op = s["ops"][i]["body"][key[1]]
                    if op.get("expect") == "refuse":
                        continue
                    op["inject"] = {"k": k, "exc": exc}
                    rec = None  # the with-exit that follows is the recovery for the main file only
                    rec = {"op": "save", "file": op["file"], "path_kind": "str"}
                s["ops"].insert(i + 1, rec)
                out.append(s)
    return out


def variants_with_disk_full(spec, res, rng, per_site=2):
    """every save / with-exit of the program once more with the disk filling up after L bytes (L below what the
    save has to write: 0, 1, half, all but one byte), followed by a recovery save with the disk usable again."""
    import copy

    out = []
    for key, need in sorted(res.save_sizes.items(), key=lambda kv: str(kv[0])):
        if not need:
            continue
        cands = sorted({0, 1, need // 2, need - 1} & set(range(need)))
        for L in (cands if per_site is None else rng.sample(cands, min(per_site, len(cands)))):
            s = copy.deepcopy(spec)
            i = key[0]
            if len(key) == 1:
                op = s["ops"][i]
                if op.get("expect") == "refuse":
                    continue
                op["fsize"] = L
                rec = {"op": "save", "file": op["file"], "path_kind": op.get("path_kind", "str")}
            elif key[1] == "exit":
                s["ops"][i]["fsize_exit"] = L
                rec = {"op": "save", "file": s["world"]["worklist"]["file"], "path_kind": "str"}
            else:
                op = s["ops"][i]["body"][key[1]]
                if op.get("expect") == "refuse":
                    continue
                op["fsize"] = L
                rec = {"op": "save", "file": op["file"], "path_kind": "str"}
            s["ops"].insert(i + 1, rec)
            out.append(s)
    return out


def account(stats, spec, res, label):
    stats.evaluations += 1
    pre = res.prestate_overwritten
    nontrivial = res.max_records_written >= 2 and (res.fault_fired or pre)
    stats.note_digest(res.digest, nontrivial)
    if res.fault_fired:
        stats.faults[label] += 1
    if pre:
        stats.faults["disk.prestate"] += 1
    for ev in res.events:
        stats.durable.add(short_hash(ev[4]))
        stats.transitions.add((ev[1], ev[2]))
    stats.last_exec = (spec, res.digest)


def explore(rng, tier, stats):
    prog = Program(rng, tier)
    spec = prog.build()
    stats.programs += 1
    res = execute(spec, count_lines=True)
    account(stats, spec, res, "body.fault")
    # the count_lines run traces saves; its digest equals an untraced run (events do not contain line counts)
    viols = list(res.violations)
    if len(stats.samples) < 3 and res.max_records_written >= 2:
        stats.samples.append({"world": {k: spec["world"][k] for k in ("device", "worklist", "disk")}, "ops": spec["ops"]})
    if not viols:
        vs = variants_with_save_faults(spec, res)
        if tier == "quick" and len(vs) > 40:
            vs = rng.sample(vs, 40)
        for s in vs:
            r2 = execute(s)
            stats.crash_points += 1
            account(stats, s, r2, "interrupt.save")
            if r2.violations:
                viols.extend(r2.violations)
                break
    if not viols:
        vs = variants_with_disk_full(spec, res, rng, per_site=None if tier == "thorough" else 1)
        if tier == "quick" and len(vs) > 6:
            vs = rng.sample(vs, 6)
        for s in vs:
            r2 = execute(s)
            stats.crash_points += 1
            account(stats, s, r2, "disk.full")
            if r2.disk_full:
                stats.probes["disk_full_reported_by_save"] += r2.disk_full
            if r2.violations:
                viols.extend(r2.violations)
                break
    return viols


def replay(spec):
    return execute(spec)
