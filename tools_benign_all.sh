#!/bin/bash
# re-runs every quick check against every filed property-preserving change (benign/<id>/patch.diff); all must exit 0
# usage: tools_benign_all.sh [budget_s]
ROOT=$(dirname $(realpath $0))
for d in $ROOT/benign/*/; do
  $ROOT/tools_benign.sh none $(basename $d) ${1:-15} 2>&1 | grep " rc=" | while read line; do
    if echo "$line" | grep -q "rc=0"; then echo "$line"; elif test -f $d/verdict.txt; then echo "$line   [alarm expected: see $(basename $d)/verdict.txt]"; else echo "$line   <-- UNEXPECTED"; fi
  done
done
