"""Regenerates MANIFEST.json from the list of built checks (run: /venv/bin/python tools_manifest.py)."""
import json
import os

ROOT = os.path.dirname(os.path.abspath(__file__))

NA = {
    "C06": "pure function of (volume, max_volume): partition_volume and the split count involve no history, fault, I/O or second party for a simulator to own (DESIGN.md section 6)",
    "C07": "the A-D-wash discipline and pairing rules of one transfer call are a function of that call's arguments only; no schedule, fault or state across calls (DESIGN.md section 6)",
    "C08": "well numbering and the id/index/position bijections are pure functions of the geometry (DESIGN.md section 6)",
    "C09": "field placement, validation and formatting of each emitter are functions of its arguments; the only history-dependent clause (set_diti after a break) is a one-record look-behind, not a schedule (DESIGN.md section 6)",
    "C10": "tip -> bit-mask encoding is a pure function of the tip argument (DESIGN.md section 6)",
    "C12": "the EVO selection string is a pure function of (rows, columns, subset) (DESIGN.md section 6)",
    "C13": "agreement of one evo_aspirate/evo_dispense command with the tracking of the same call, and evo_wash parameter order, are functions of that call's arguments; a consequence of a mismatch is visible to C03 and is reported there (DESIGN.md section 6)",
    "C14": "DilutionPlan construction is pure and to_worklist is a fixed deterministic composition of transfers determined by the plan arguments (DESIGN.md section 6)",
    "C15": "shift/rotate/randomise are pure bijections; randomisation uses a private RandomState(seed), so there is no global RNG, hash-order or clock for a simulator to control (DESIGN.md section 6)",
    "C18": "partition_by_column / optimize_partition_by are pure functions of their arguments (DESIGN.md section 6)",
    "C19": "get_trough_wells is a pure function of (n, wells) (DESIGN.md section 6)",
    "C20": "constructor validation and initial layout are functions of the constructor arguments only (DESIGN.md section 6)",
}

CHECKS = {
    "C01": dict(
        level="exploration",
        text="Seeded simulation of programs of successful liquid operations on one device inside a real with-block; a second party - an independent interpreter of the Tecan record format with its own device-specific numbering and exact-rational well state - executes the newly appended records after every operation and, at the end, the file read back from a real scratch directory. Routing (which wells the records address), volumes and compositions are compared with the Labware twin after every step. Sampling over seeds: evidence, not proof. A second worklist object of the other device kind may work on the same labware objects (its records are executed by a second robot sharing the wells); 40 % of the worlds carry on after a caught rejection (the robot adopts the twin's volumes); calls are repeated verbatim; every run starts in a library reset to its post-import state and one run in twenty is executed twice in one process.",
        note="Trusted: the robot interpreter (verif/sim/robot.py) as the meaning of A/D/R records; two-decimal rounding slack (0.005 per A/D record) only in the free-float regime, exact comparison in the quarter/centi regimes; compositions compared only where the content is fully known. Known finding F4 (Fluent distribute source range) is reported as KNOWN-FINDING.",
        technique="deterministic simulation: seeded programs, peer-model (robot interpreter) replay of records and of the written file, lock-step comparison with the digital twin",
        ref="DESIGN.md section 5 / C01",
    ),
    "C02": dict(
        level="exploration",
        text="Seeded histories over every tracked entry point (add/remove/aspirate/dispense/transfer/distribute/evo_aspirate/evo_dispense) in which rejections are aimed at the limit at a chosen element or sub-step (far beyond, one grid step, one ulp, inf) and about one operation in twelve is interrupted at a robotools source line; after every operation - accepted, rejected or interrupted - limits, non-negativity, the frame condition, per-well bounds (a well never gains more than the call adds to it nor loses more than it removes) and an exact-arithmetic must-reject condition are checked. Sampling over seeds. Labware constructed in mid-script with a negative initial volume must be refused; limits are reassigned after construction; NaN / slightly negative volumes and non-pairing compositions are issued as calls that must be refused or harmless.",
        note="Trusted: harness-side plan of the requested moves (verif/sim/ops.py) and exact Fraction arithmetic; must-reject is only demanded beyond a few ulp of float slack; spurious rejections are deliberately not judged.",
        technique="deterministic simulation + fault injection: aimed rejections at every call site and sub-step, line-level interrupts, exact-arithmetic must-reject oracle",
        ref="DESIGN.md section 5 / C02",
    ),
    "C03": dict(
        level="fault_enumeration",
        text="Seeded simulation of programs inside a real `with Worklist(path)` block on a real scratch file system, with one terminal fault per execution: every kind of rejection aimed at a chosen sub-step, or an exception injected (sys.settrace) at a chosen robotools source line of the terminal operation - every line in the thorough tier (every k-th line for programs so large that full enumeration would re-execute more than 3e6 line events). An independent robot interpreter replays the record list after every operation and the file written by the real __exit__. Sampling over programs, enumeration over crash points within a program; evidence, not proof. Further faults: an interrupt inside an explicit save() to the worklist's own path, the worklist's max_volume reassigned in mid-script, a second worklist object with other settings, verbatim repetition of the previous call, a decisive follow-up (a volume no named well can afford) after an invalid call that was let through; the file written by the real __exit__ must hold exactly the replayed records.",
        note="Trusted: the robot interpreter (verif/sim/robot.py) as the meaning of A/D/R/B; records, per-record 0.005 rounding slack in the free-float regime; CPython's settrace line events as the set of crash points; undecodable records are counted and end the replay clauses for that run (decoding is C01's subject).",
        technique="deterministic simulation + fault injection: seeded programs, aimed rejections, line-level interrupt enumeration, robot replay of records and of the file written by __exit__",
        ref="DESIGN.md section 5 / C03",
    ),
    "C04": dict(
        level="exploration",
        text="Seeded long histories of add/remove (direct, through aspirate/dispense and through transfer/distribute of both devices) over every geometry class and argument shape (scalar, lists with repeats and trough aliases, 2-D slices, broadcast scalars), about one call in six aimed to be rejected at a chosen element; an exact-arithmetic ledger is stepped in lock-step and compared after every call, with prefix-or-nothing semantics after rejected single-step calls, per-well bounds after rejected multi-step calls, and a bit-exact frame condition on unaddressed wells. Sampling over seeds.",
        note="Trusted: the ledger (verif/sim/ledger.py) and the harness-side column-major pairing by explicit loops; exact equality on the quarter grid, 1e-9 relative float slack elsewhere.",
        technique="deterministic simulation: seeded histories with interleaved rejections, lock-step exact reference model (ledger), narrow resynchronisation after faults",
        ref="DESIGN.md section 5 / C04",
    ),
    "C05": dict(
        level="exploration",
        text="Seeded histories of transfers, distributions, dispenses of known composition and removals in exact-friendly volume regimes, stepped in lock-step with an exact volumetric mixing model; mixing, finiteness, normalisation, inertness of removals, conservation of every component and the default naming rule are checked after every step. The statement itself has no fault dimension (the weakest fit of the technique: its value is the reference model over long histories); rejected operations are nevertheless interleaved in half of the runs - the wells a rejected call addressed become content-unknown, everything else must be untouched, and the history goes on, so state left behind by a failed call is seen by the later steps. Sampling over seeds. A third grid (multiples of 0.001 uL) leaves crumbs below the printed resolution in wells.",
        note="Trusted: the ledger's mixing model; wells that received liquid of unknown composition are exempt from the mixing and sum clauses only; for self-overlapping transfers the sub-step order is taken from the emitted records, guarded by the requested flow totals.",
        technique="deterministic simulation + fault injection: seeded histories with interleaved aimed rejections, lock-step exact-arithmetic reference model, conservation invariant",
        ref="DESIGN.md section 5 / C05",
    ),
    "C11": dict(
        level="exploration",
        text="Seeded histories mixing add/remove/aspirate/dispense/transfer/distribute (zero volumes, split volumes, same-labware transfers, all label forms) with rejections and line-level interrupts interleaved; an append-only model of the history is compared after every successful operation (prefix, entry count, newest entry and label incl. the large-volume count, report), and an aliasing monitor keeps every array ever handed out by `volumes`/`history` by reference next to a private copy for the whole run. Sampling over seeds. EVO script commands (one entry per call) are part of the histories; the k-th printed state of the report must show the k-th entry's volumes.",
        note="Trusted: harness-side plan for what moved; the count of a transfer that moves nothing is accepted as 0 or 1; labware touched by an injected interrupt leaves the per-operation clauses for the rest of the run. Known finding F7 (labels 'first'/'last') is reported as KNOWN-FINDING.",
        technique="deterministic simulation + fault injection: seeded histories, append-only history model, snapshot/aliasing monitor over the recorded history",
        ref="DESIGN.md section 5 / C11",
    ),
    "C16": dict(
        level="exploration",
        text="One seeded program, three replicas (EvoWorklist, FluentWorklist, BaseWorklist) each owning a fresh copy of the same world; the same call is issued to every replica step by step, rejected operations included, and after every step outcomes, labware states (volumes, compositions, histories) and record lists are compared; differing trough positions must decode to the same real well; the Base replica must refuse device-specific numbering. Sampling over seeds.",
        note="Trusted: the harness-side numbering (verif/sim/geom.py) for the trough-position exemption; rejection classes other than volume violations / InvalidOperationError may differ between the copies.",
        technique="deterministic simulation: replicated state machines fed one operation log incl. faulty operations, divergence check after every step",
        ref="DESIGN.md section 5 / C16",
    ),
    "C17": dict(
        level="fault_enumeration",
        text="Seeded histories over one worklist object and one real scratch directory (appends of every record type incl. Latin-1 text, save to str/Path, repeated saves with growing and shrinking content, clear, with-blocks entered on non-empty worklists and left by rejections or injected interrupts, hostile pre-existing files); for every save()/__exit__ of a program every robotools source line inside it is in turn the point of an injected exception, followed by a recovery save that must repair the file; every save()/__exit__ is also run with the disk filling up after L bytes (RLIMIT_FSIZE: the kernel cuts the write short and fails it with EFBIG; L = 0, 1, half, all but one byte): a save that returns normally must still have written exactly the records - a swallowed write error is silent data loss - and a recovery save follows. File bytes are compared with CRLF-joined Latin-1 records. Sampling over programs, enumeration over crash points inside save/__exit__.",
        note="Trusted: the real file system as ground truth (no patched open); the only OS-level I/O error injected is a full disk (EFBIG after L bytes, any write API); nothing is claimed about the file of an aborted or failed save, only that the failure is not hidden and that the recovery save repairs it.",
        technique="deterministic simulation + fault injection: real file system scratch dirs, hostile disk pre-states, line-level interrupt enumeration inside save/__exit__ with recovery, kernel-level disk-full (short write + EFBIG) injection",
        ref="DESIGN.md section 5 / C17",
    ),
}


def main():
    checks = []
    for pid in sorted(CHECKS):
        c = CHECKS[pid]
        checks.append({
            "property_id": pid,
            "quick_cmd": f"/venv/bin/python -m verif.check {pid} --tier quick",
            "thorough_cmd": f"/venv/bin/python -m verif.check {pid} --tier thorough",
            "evidence_file": f"/verif/evidence/{pid}.json",
            "replay_cmd_template": f"/venv/bin/python -m verif.check {pid} --replay {{path}}",
            "engine": "bench",
            "level_claimed": {"category": c["level"], "text": c["text"], "design_ref": c["ref"]},
            "level_note": c["note"],
            "technique": c["technique"],
        })
    man = {
        "version": 1,
        "setup_cmd": "/venv/bin/python -m compileall -q /verif/verif && /venv/bin/python -c \"import numpy, sys; sys.path.insert(0, '/repo'); import robotools\"",
        "hooks": {
            "guard": "ROBOTOOLS_VERIF",
            "enable": "no hooks were needed: every seam (public API, sys.settrace, file path argument, constructor knobs) exists already; the guard name is reserved and unused",
            "baseline_off_cmd": "cd /repo && /venv/bin/python -m pytest -ra -q -p no:cacheprovider --timeout=900 --continue-on-collection-errors",
            "source_commits": [],
            "add_only": True,
        },
        "engines": [{
            "name": "bench",
            "path": "/verif/verif",
            "serves_properties": sorted(CHECKS),
            "kind_free_text": "hand-written deterministic simulator: seeded workload generator aimed by live labware state, settrace line-level fault injector, real file system scratch dirs, independent robot interpreter and exact-arithmetic ledger as reference models, ddmin shrinker, self-contained replay files",
        }],
        "checks": checks,
        "not_applicable": [{"property_id": k, "reason": v} for k, v in sorted(NA.items())],
        "notes": "All checks import robotools from VERIF_REPO (default /repo) working tree; VERIF_SEED, VERIF_TIER, VERIF_BUDGET_S, VERIF_WORKERS are honoured. Exit 2 = harness fault. Fix commits in /repo and known findings are listed in known_findings.json and DESIGN.md section 9.",
    }
    with open(os.path.join(ROOT, "MANIFEST.json"), "w") as f:
        json.dump(man, f, indent=1)
    print("wrote MANIFEST.json with", len(checks), "checks")


if __name__ == "__main__":
    main()
